//! C18: migrations are version-gated and preserve every value-bearing record.
#![allow(dead_code)]
use crate::addr::{self, Who};
use crate::scen::{self, CfgSpec};
use crate::step::{claim, prove, Filter, Funds, Op, P};
use crate::suites::Case;
use crate::t;
use crate::world::{dump, Dump, Tx};
use cosmwasm_std::{Addr, Uint128};
use staking::migrations::states::{v0_4_18, v0_4_20, v1_0_0};
use staking::msg::MigrateMsg;
use staking::state::ibc::PacketLifecycleStatus;
use staking::state::{CONFIG, IBC_WAITING_FOR_REPLY, INFLIGHT_PACKETS};

fn msgs(who: &Who) -> Vec<(&'static str, &'static str, MigrateMsg)> {
    vec![
        ("0.4.18", "a", MigrateMsg::V0_4_18ToV0_4_20 { send_fees_to_treasury: true }),
        ("0.4.20", "b", MigrateMsg::V0_4_20ToV1_0_0 { native_account_address_prefix: who.np.clone(), native_validator_address_prefix: who.vp.clone(), native_token_denom: "utia".into(), protocol_account_address_prefix: who.pp.clone() }),
        ("1.0.0", "c", MigrateMsg::V1_0_0ToV1_1_0 {}),
    ]
}

fn old_config_0418(who: &Who, fee: Uint128, min: Uint128) -> v0_4_18::Config {
    v0_4_18::Config {
        native_token_denom: addr::NATIVE_DENOM.into(),
        liquid_stake_token_denom: who.lst_denom(),
        treasury_address: Addr::unchecked(who.treasury.clone()),
        operators: Some(vec![Addr::unchecked(who.u3.clone())]),
        monitors: Some(vec![Addr::unchecked(who.monitor.clone())]),
        validators: vec![Addr::unchecked(who.val1.clone()), Addr::unchecked(who.val2.clone())],
        batch_period: 86_400,
        unbonding_period: 1_209_600,
        protocol_fee_config: v0_4_18::ProtocolFeeConfig { dao_treasury_fee: fee },
        multisig_address_config: v0_4_18::MultisigAddressConfig { staker_address: Addr::unchecked(who.staker.clone()), reward_collector_address: Addr::unchecked(who.collector.clone()) },
        minimum_liquid_stake_amount: min,
        ibc_channel_id: addr::CHANNEL.into(),
        stopped: false,
        oracle_contract_address: None,
        oracle_contract_address_v2: None,
        oracle_address: Some(Addr::unchecked(who.oracle.clone())),
    }
}

fn old_config_0420(who: &Who, fee: Uint128, min: Uint128, send_fees: bool) -> v0_4_20::Config {
    v0_4_20::Config {
        native_token_denom: addr::NATIVE_DENOM.into(),
        liquid_stake_token_denom: who.lst_denom(),
        treasury_address: Addr::unchecked(who.treasury.clone()),
        monitors: Some(vec![Addr::unchecked(who.monitor.clone())]),
        validators: vec![Addr::unchecked(who.val1.clone()), Addr::unchecked(who.val2.clone())],
        batch_period: 86_400,
        unbonding_period: 1_209_600,
        protocol_fee_config: v0_4_18::ProtocolFeeConfig { dao_treasury_fee: fee },
        multisig_address_config: v0_4_18::MultisigAddressConfig { staker_address: Addr::unchecked(who.staker.clone()), reward_collector_address: Addr::unchecked(who.collector.clone()) },
        minimum_liquid_stake_amount: min,
        ibc_channel_id: addr::CHANNEL.into(),
        stopped: true,
        oracle_address: Some(Addr::unchecked(who.oracle.clone())),
        send_fees_to_treasury: send_fees,
    }
}

fn raw_except(a: &Dump, b: &Dump, prefixes: &[&[u8]]) -> bool {
    // items are stored under their namespace, map entries under <2-byte length><namespace><key>
    let drop = |k: &Vec<u8>| prefixes.iter().any(|p| k.as_slice() == *p || (k.len() > 2 && k[2..].starts_with(p)));
    let fa: Vec<_> = a.iter().filter(|(k, _)| !drop(k)).collect();
    let fb: Vec<_> = b.iter().filter(|(k, _)| !drop(k)).collect();
    fa == fb
}

/// Version gate: stored (name, version) x migrate message.
pub fn gate_case(stored_name: &'static str, stored_version: &'static str, which: usize) -> Case {
    Case {
        name: format!("mig:gate:{stored_name}:{stored_version}:{which}"),
        run: Box::new(move |f: &Filter, _mw: bool| {
            let cfg = CfgSpec::base();
            let fee = Uint128::new(symcore::var("fee_rate"));
            let min = Uint128::new(symcore::var("min_stake"));
            let mut chain = scen::instantiate(&cfg, fee, min);
            let who = chain.who.clone();
            let (src, _tag, msg) = msgs(&who).remove(which);
            // storage layout the chosen path expects
            match which {
                0 => v0_4_18::CONFIG.save(&mut chain.deps.storage, &old_config_0418(&who, fee, min)).unwrap(),
                1 => v0_4_20::CONFIG.save(&mut chain.deps.storage, &old_config_0420(&who, fee, min, true)).unwrap(),
                _ => {}
            }
            cw2::set_contract_version(&mut chain.deps.storage, stored_name, stored_version).unwrap();
            let before = dump(&chain.deps.storage);
            let env = chain.env.clone();
            let r = symcore::catch(|| staking::contract::migrate(chain.deps.as_mut(), env, msg).map_err(|e| e.to_string()));
            let after = dump(&chain.deps.storage);
            match &r {
                Err(p) => {
                    prove(f, &format!("C16:no panic [{}]", crate::step::panic_key(p)), "false".into());
                    symcore::note("outcome=panic".into());
                }
                Ok(Ok(_)) => {
                    claim(f, "C16:entry point returned a result or a typed error", true);
                    symcore::note("outcome=ok".into());
                }
                Ok(Err(_)) => {
                    claim(f, "C16:entry point returned a result or a typed error", true);
                    symcore::note("outcome=err".into());
                }
            }
            let expect_ok = stored_name == "staking" && stored_version == src;
            claim(f, "C18:migration succeeds only from the exact source version of the chosen path, for the same contract name", matches!(r, Ok(Ok(_))) == expect_ok || r.is_err());
            if !matches!(r, Ok(Ok(_))) {
                claim(f, "C18:a refused migration changes nothing", before == after);
            } else {
                let v = cw2::get_contract_version(&chain.deps.storage).unwrap();
                claim(f, "C18:a successful migration records the new version", v.contract == "staking" && v.version == staking::contract::CONTRACT_VERSION);
            }
        }),
    }
}

/// 1.0.0 -> 1.1.0 with legacy packets in every status and pending replies; amounts symbolic.
pub fn v110_case(npk: usize, nwait: usize, variant: usize) -> Case {
    Case {
        name: format!("mig:v110:{npk}:{nwait}:{variant}"),
        run: Box::new(move |f: &Filter, mw: bool| {
            let cfg = CfgSpec::base();
            let s = crate::scen::Structure { name: "mig".into(), cfg: cfg.clone(), batches: vec![crate::scen::BatchSpec { status: crate::scen::St::Received, reqs: vec![0], withdrawn: 0, due: 0 }, crate::scen::BatchSpec { status: crate::scen::St::Pending, reqs: vec![1], withdrawn: 0, due: 1 }], packets: vec![], nonempty_pool: true, id_base: 0 };
            let mut b = scen::build(&s);
            let who = b.chain.who.clone();
            let statuses = [PacketLifecycleStatus::Sent, PacketLifecycleStatus::AckFailure, PacketLifecycleStatus::TimedOut, PacketLifecycleStatus::AckSuccess];
            let mut legacy = vec![];
            for i in 0..npk {
                let seq = 10 + i as u64 * 3;
                let amt = symcore::var(&format!("lpk{seq}"));
                symcore::assume(t::le(&t::u(amt), t::E27));
                let st = statuses[(i + variant) % statuses.len()].clone();
                // written at the raw key of the deployed 1.0.0 layout (namespace "inflight"), not through the crate's constant
                {
                    use cosmwasm_std::Storage;
                    let val = cosmwasm_std::to_json_vec(&v1_0_0::IBCTransfer { sequence: seq, amount: amt, status: st.clone() }).unwrap();
                    b.chain.deps.storage.set(&crate::world::raw_map_key("inflight", seq), &val);
                }
                legacy.push((seq, amt, st));
            }
            let mut waiting = vec![];
            for i in 0..nwait {
                let id = 1_000 + i as u64;
                let amt = symcore::var(&format!("lw{id}"));
                symcore::assume(t::le(&t::u(amt), t::E27));
                {
                    use cosmwasm_std::Storage;
                    let val = cosmwasm_std::to_json_vec(&v1_0_0::IbcWaitingForReply { amount: amt }).unwrap();
                    b.chain.deps.storage.set(&crate::world::raw_map_key("ibc_waiting_for_reply", id), &val);
                }
                waiting.push((id, amt));
            }
            cw2::set_contract_version(&mut b.chain.deps.storage, "staking", "1.0.0").unwrap();
            let before = dump(&b.chain.deps.storage);
            let env = b.chain.env.clone();
            let r = symcore::catch(|| staking::contract::migrate(b.chain.deps.as_mut(), env, MigrateMsg::V1_0_0ToV1_1_0 {}).map_err(|e| e.to_string()));
            let after = dump(&b.chain.deps.storage);
            match &r {
                Err(p) => {
                    prove(f, &format!("C16:no panic [{}]", crate::step::panic_key(p)), "false".into());
                    symcore::note("outcome=panic".into());
                    return;
                }
                Ok(Err(e)) => {
                    claim(f, &format!("C18:1.0.0 -> 1.1.0 succeeds from a 1.0.0 store [{}]", crate::step::short(e)), false);
                    symcore::note("outcome=err".into());
                    return;
                }
                Ok(Ok(_)) => symcore::note("outcome=ok".into()),
            }
            claim(f, "C16:entry point returned a result or a typed error", true);
            let conf = CONFIG.load(&b.chain.deps.storage).unwrap();
            let mut keys_ok = true;
            let mut cs = vec![];
            let mut n_new = 0;
            for r in INFLIGHT_PACKETS.range(&b.chain.deps.storage, None, None, cosmwasm_std::Order::Ascending) {
                match r {
                    Ok((k, p)) => {
                        n_new += 1;
                        match legacy.iter().find(|l| l.0 == k) {
                            None => keys_ok = false,
                            Some((seq, amt, st)) => {
                                if p.sequence != *seq || p.status != *st || p.amount.denom != conf.protocol_chain_config.ibc_token_denom || p.receiver != conf.native_chain_config.staker_address.to_string() {
                                    keys_ok = false;
                                }
                                cs.push(t::eq(&t::ut(p.amount.amount), &t::u(*amt)));
                            }
                        }
                    }
                    Err(_) => keys_ok = false,
                }
            }
            claim(f, "C18:every tracked transfer keeps key, sequence and status and gains the staked-asset denom and the staker as receiver", keys_ok && n_new == legacy.len());
            prove(f, "C18:every tracked transfer keeps its amount", t::and(&cs));
            let mut wok = true;
            let mut ws = vec![];
            let mut n_w = 0;
            for r in IBC_WAITING_FOR_REPLY.range(&b.chain.deps.storage, None, None, cosmwasm_std::Order::Ascending) {
                match r {
                    Ok((k, p)) => {
                        n_w += 1;
                        match waiting.iter().find(|l| l.0 == k) {
                            None => wok = false,
                            Some((_, amt)) => {
                                if p.amount.denom != conf.protocol_chain_config.ibc_token_denom || p.receiver != conf.native_chain_config.staker_address.to_string() {
                                    wok = false;
                                }
                                ws.push(t::eq(&t::ut(p.amount.amount), &t::u(*amt)));
                            }
                        }
                    }
                    Err(_) => wok = false,
                }
            }
            claim(f, "C18:every pending reply keeps its key and gains denom and receiver", wok && n_w == waiting.len());
            prove(f, "C18:every pending reply keeps its amount", t::and(&ws));
            claim(f, "C18:all other stored data is untouched", raw_except(&before, &after, &[b"inflight", b"ibc_waiting_for_reply", b"contract_info"]));
            {
                use cosmwasm_std::Storage;
                let raw_ok = legacy.iter().all(|l| b.chain.deps.storage.get(&crate::world::raw_map_key("inflight", l.0)).is_some()) && waiting.iter().all(|w| b.chain.deps.storage.get(&crate::world::raw_map_key("ibc_waiting_for_reply", w.0)).is_some());
                claim(f, "C18:every tracked and pending transfer is still stored at its raw key of the deployed layout", raw_ok);
                claim(f, "C18:every stored record lives under a namespace of the deployed storage layout", crate::world::namespaces(&after).iter().all(|n| crate::world::DEPLOYED_NAMESPACES.contains(&n.as_str())));
            }
            let v = cw2::get_contract_version(&b.chain.deps.storage).unwrap();
            claim(f, "C18:the new version is recorded", v.version == staking::contract::CONTRACT_VERSION && v.contract == "staking");
            // refundable value recoverable before the upgrade is recoverable after it
            let refundable: Vec<&(u64, u128, PacketLifecycleStatus)> = legacy.iter().filter(|l| l.2 == PacketLifecycleStatus::AckFailure || l.2 == PacketLifecycleStatus::TimedOut).collect();
            if !refundable.is_empty() && nwait == 0 {
                let total = t::sum(&refundable.iter().map(|l| t::u(l.1)).collect::<Vec<_>>());
                // the refunded tokens are in the contract's balance
                let c = who.contract.clone();
                let cur = b.chain.bal(&c, addr::NATIVE_DENOM);
                b.chain.set_bal(&c, addr::NATIVE_DENOM, t::add(&cur, &total));
                let out = crate::step::run(&mut b, &Op::Recover { sender: P::U(2), paginated: None, selected: None, receiver: None, faults: vec![] }, "r_", scen::Envelope::C16);
                match &out.tx {
                    Tx::Ok { msgs, .. } => {
                        let tr: Vec<&crate::world::Emitted> = msgs.iter().filter(|m| matches!(m, crate::world::Emitted::Transfer { .. })).collect();
                        claim(f, "C18:after the upgrade the legacy refundable transfers are recovered by one transfer to the staker", tr.len() == 1);
                        if let Some(crate::world::Emitted::Transfer { amount, receiver, denom, .. }) = tr.first() {
                            claim(f, "C18:recovered legacy value goes to the staker in the staked asset", *receiver == who.staker && denom == addr::NATIVE_DENOM);
                            prove(f, "C18:recovered amount equals the refundable value recorded before the upgrade", t::eq(amount, &total));
                        }
                    }
                    other => claim(f, &format!("C18:legacy refundable transfers are recoverable after the upgrade [{}]", crate::step::short(&other.detail())), false),
                }
            }
            let _ = (mw, Funds::None);
        }),
    }
}

/// 0.4.18 -> 0.4.20 and 0.4.20 -> 1.0.0: field-by-field translation of the configuration.
pub fn old_paths_case(which: usize, flag: bool, shape: u8) -> Case {
    Case {
        name: format!("mig:old:{which}:{flag}:shape{shape}"),
        run: Box::new(move |f: &Filter, _mw: bool| {
            let cfg = CfgSpec::base();
            let fee = Uint128::new(symcore::var("fee_rate"));
            let min = Uint128::new(symcore::var("min_stake"));
            let mut chain = scen::instantiate(&cfg, Uint128::new(7), Uint128::new(9));
            let who = chain.who.clone();
            let env = chain.env.clone();
            if which == 0 {
                // shape: which optional fields of the legacy configuration are absent, and the halted flag
                let mut old = old_config_0418(&who, fee, min);
                if shape & 1 != 0 {
                    old.operators = None;
                }
                if shape & 2 != 0 {
                    old.monitors = None;
                }
                old.oracle_contract_address = if shape & 4 != 0 { Some(Addr::unchecked(who.u1.clone())) } else { None };
                old.oracle_contract_address_v2 = if shape & 8 != 0 { Some(Addr::unchecked(who.u2.clone())) } else { None };
                if shape & 16 != 0 {
                    old.oracle_address = None;
                }
                old.stopped = shape & 32 != 0;
                v0_4_18::CONFIG.save(&mut chain.deps.storage, &old).unwrap();
                cw2::set_contract_version(&mut chain.deps.storage, "staking", "0.4.18").unwrap();
                let before = dump(&chain.deps.storage);
                let r = symcore::catch(|| staking::contract::migrate(chain.deps.as_mut(), env, MigrateMsg::V0_4_18ToV0_4_20 { send_fees_to_treasury: flag }).map_err(|e| e.to_string()));
                claim(f, "C18:0.4.18 -> 0.4.20 succeeds from a 0.4.18 store", matches!(r, Ok(Ok(_))));
                symcore::note(format!("outcome={}", if matches!(r, Ok(Ok(_))) { "ok" } else { "err" }));
                if let Ok(Ok(_)) = r {
                    let n = v0_4_20::CONFIG.load(&chain.deps.storage).unwrap();
                    claim(
                        f,
                        "C18:0.4.18 -> 0.4.20 keeps every retained configuration field",
                        n.native_token_denom == old.native_token_denom && n.liquid_stake_token_denom == old.liquid_stake_token_denom && n.treasury_address == old.treasury_address && n.monitors == old.monitors && n.validators == old.validators && n.batch_period == old.batch_period && n.unbonding_period == old.unbonding_period && n.multisig_address_config == old.multisig_address_config && n.ibc_channel_id == old.ibc_channel_id && n.stopped == old.stopped && n.oracle_address == old.oracle_address && n.send_fees_to_treasury == flag,
                    );
                    prove(f, "C18:0.4.18 -> 0.4.20 keeps fee rate and minimum stake", t::and(&[t::eq(&t::ut(n.protocol_fee_config.dao_treasury_fee), &t::ut(fee)), t::eq(&t::ut(n.minimum_liquid_stake_amount), &t::ut(min))]));
                    claim(f, "C18:0.4.18 -> 0.4.20 touches only config and version", raw_except(&before, &dump(&chain.deps.storage), &[b"config", b"contract_info"]));
                }
            } else {
                let mut old = old_config_0420(&who, fee, min, flag);
                if shape & 2 != 0 {
                    old.monitors = None;
                }
                if shape & 16 != 0 {
                    old.oracle_address = None;
                }
                old.stopped = shape & 32 != 0;
                v0_4_20::CONFIG.save(&mut chain.deps.storage, &old).unwrap();
                cw2::set_contract_version(&mut chain.deps.storage, "staking", "0.4.20").unwrap();
                let before = dump(&chain.deps.storage);
                let m = MigrateMsg::V0_4_20ToV1_0_0 { native_account_address_prefix: who.np.clone(), native_validator_address_prefix: who.vp.clone(), native_token_denom: "utia".into(), protocol_account_address_prefix: who.pp.clone() };
                let r = symcore::catch(|| staking::contract::migrate(chain.deps.as_mut(), env, m).map_err(|e| e.to_string()));
                claim(f, "C18:0.4.20 -> 1.0.0 succeeds from a 0.4.20 store", matches!(r, Ok(Ok(_))));
                symcore::note(format!("outcome={}", if matches!(r, Ok(Ok(_))) { "ok" } else { "err" }));
                if let Ok(Ok(_)) = r {
                    let n = CONFIG.load(&chain.deps.storage).unwrap();
                    claim(
                        f,
                        "C18:0.4.20 -> 1.0.0 translates the configuration field by field",
                        n.native_chain_config.account_address_prefix == who.np
                            && n.native_chain_config.validator_address_prefix == who.vp
                            && n.native_chain_config.validators == old.validators
                            && n.native_chain_config.token_denom == "utia"
                            && n.native_chain_config.reward_collector_address == old.multisig_address_config.reward_collector_address
                            && n.native_chain_config.staker_address == old.multisig_address_config.staker_address
                            && n.native_chain_config.unbonding_period == old.unbonding_period
                            && n.protocol_chain_config.account_address_prefix == who.pp
                            && n.protocol_chain_config.ibc_channel_id == old.ibc_channel_id
                            && n.protocol_chain_config.ibc_token_denom == old.native_token_denom
                            && n.protocol_chain_config.oracle_address == old.oracle_address
                            && n.protocol_fee_config.treasury_address == if flag { Some(old.treasury_address.clone()) } else { None }
                            && n.liquid_stake_token_denom == old.liquid_stake_token_denom
                            && n.batch_period == old.batch_period
                            && n.monitors == old.monitors.clone().unwrap_or_default()
                            && n.stopped == old.stopped,
                    );
                    prove(f, "C18:0.4.20 -> 1.0.0 keeps fee rate and minimum stake", t::and(&[t::eq(&t::ut(n.protocol_fee_config.dao_treasury_fee), &t::ut(fee)), t::eq(&t::ut(n.protocol_chain_config.minimum_liquid_stake_amount), &t::ut(min))]));
                    claim(f, "C18:0.4.20 -> 1.0.0 touches only config and version", raw_except(&before, &dump(&chain.deps.storage), &[b"config", b"contract_info"]));
                }
            }
        }),
    }
}

pub fn cases(tier: &str) -> Vec<Case> {
    let mut v = vec![];
    for name in ["staking", "crates.io:staking", "treasury"] {
        for ver in ["0.4.18", "0.4.20", "1.0.0", "1.1.0", "2.0.0", "0.4.19", "0.4.21", "0.4.17", "1.0.1", "1.0.0+build", "1.0.0-rc1", "0.9.9", "garbage", ""] {
            for which in 0..3 {
                v.push(gate_case(name, ver, which));
            }
        }
    }
    let (maxp, maxw) = if tier == "thorough" { (4, 2) } else { (3, 2) };
    for npk in 0..=maxp {
        for nwait in 0..=maxw {
            for variant in 0..4 {
                if npk == 0 && variant > 0 {
                    continue;
                }
                v.push(v110_case(npk, nwait, variant));
            }
        }
    }
    // store sizes around and beyond the page size of the recovery / query code (10), so that a migration that converts
    // the queues page by page is covered: bound = 45 tracked transfers and 23 pending replies (thorough), 34 / 11 (quick)
    let big_p: Vec<usize> = if tier == "thorough" { vec![9, 10, 11, 12, 20, 21, 22, 23, 33, 34, 45] } else { vec![9, 10, 11, 12, 21, 22, 23, 34] };
    let big_w: Vec<usize> = if tier == "thorough" { vec![0, 10, 11, 23] } else { vec![0, 11] };
    for npk in big_p {
        for nwait in &big_w {
            for variant in 0..4 {
                v.push(v110_case(npk, *nwait, variant));
            }
        }
    }
    for nwait in [9usize, 10, 11, 12, 21, 22, 23] {
        v.push(v110_case(2, nwait, 1));
    }
    for which in 0..2 {
        for flag in [true, false] {
            for shape in 0..64u8 {
                if which == 1 && shape & (1 | 4 | 8) != 0 {
                    continue; // the 0.4.20 layout has no operators / legacy oracle slots
                }
                v.push(old_paths_case(which, flag, shape));
            }
        }
    }
    v
}
