//! Chain model: bank, token factory, IBC transfer escrow/packets, ibc-hooks callbacks, reply and
//! rollback semantics. Amounts are SMT terms; everything else is concrete. The staking contract's
//! real entry points are called on a real `MockStorage`.
#![allow(dead_code)]
use crate::addr::Who;
use crate::pb;
use crate::t::{self, T};
use cosmwasm_std::testing::{mock_env, MockApi, MockQuerier, MockStorage};
use cosmwasm_std::{
    Addr, BankMsg, Binary, Coin, CosmosMsg, Env, MessageInfo, Order, OwnedDeps, Reply, ReplyOn, Response, Storage, SubMsgResponse,
    SubMsgResult, Timestamp, Uint128,
};
use std::collections::BTreeMap;

pub type Deps = OwnedDeps<MockStorage, MockApi, MockQuerier>;
pub type Dump = Vec<(Vec<u8>, Vec<u8>)>;

pub fn dump(s: &dyn Storage) -> Dump {
    s.range(None, None, Order::Ascending).collect()
}
/// Storage namespaces in use: plain item keys, or the length-prefixed first component of map keys.
pub fn namespaces(d: &Dump) -> std::collections::BTreeSet<String> {
    let mut out = std::collections::BTreeSet::new();
    for (k, _) in d {
        let ns = if k.len() > 2 && k[0] == 0 && (k[1] as usize) + 2 <= k.len() && k[1] > 0 { &k[2..2 + k[1] as usize] } else { &k[..] };
        out.insert(String::from_utf8_lossy(ns).to_string());
    }
    out
}
/// The namespaces of the deployed staking contract (pinned: a rename orphans every stored record on upgrade).
pub const DEPLOYED_NAMESPACES: [&str; 10] = ["admin", "batches", "config", "contract_info", "ibc_waiting_for_reply", "inflight", "pending_batch_id", "state", "unstake_requests", "unstake_requests_by_user"];

/// Raw storage key of a `Map<u64, _>` entry, written from the cw-storage-plus key format (not through the crate's constants).
pub fn raw_map_key(ns: &str, k: u64) -> Vec<u8> {
    let mut key = vec![(ns.len() >> 8) as u8, (ns.len() & 0xff) as u8];
    key.extend_from_slice(ns.as_bytes());
    key.extend_from_slice(&k.to_be_bytes());
    key
}

pub fn restore(s: &mut MockStorage, d: &Dump) {
    let keys: Vec<Vec<u8>> = s.range(None, None, Order::Ascending).map(|(k, _)| k).collect();
    for k in keys {
        s.remove(&k);
    }
    for (k, v) in d {
        s.set(k, v);
    }
}

#[derive(Clone, Debug, PartialEq)]
pub enum PState {
    Sent,
    Delivered,
    Refunded, // error ack or timeout: escrow returned to the sender
    Resent,   // refunded and consumed by a recovery (ghost, set by the harness)
}

#[derive(Clone, Debug)]
pub struct WPacket {
    pub seq: u64,
    pub channel: String,
    pub denom: String,
    pub amount: T,
    pub sender: String,
    pub receiver: String,
    pub state: PState,
    pub memo: String,
    pub timeout_ns: u64,
}

#[derive(Clone, Debug)]
pub enum Emitted {
    CreateDenom { url: String, sender: String, subdenom: String, canonical: bool },
    Mint { url: String, sender: String, denom: String, amount: T, to: String, canonical: bool },
    Burn { url: String, sender: String, denom: String, amount: T, from: String, canonical: bool },
    Send { from: String, to: String, coins: Vec<(String, T)>, via: &'static str },
    Transfer { sender: String, receiver: String, denom: String, amount: T, channel: String, port: String, memo: String, timeout_ns: u64, timeout_height_set: bool, sub: Option<(u64, ReplyOn)>, seq: Option<u64> },
    OraclePost { sender: String, contract: String, payload: String, funds: usize },
    SwapIn { sender: String, routes: Vec<(u64, String)>, token_in: (String, T), min_out: T },
    SwapOut { sender: String, routes: Vec<(u64, String)>, token_out: (String, T), max_in: T },
    Other { desc: String },
}

#[derive(Debug)]
pub enum Tx {
    Ok { msgs: Vec<Emitted>, attrs: Vec<(String, String)>, hooks: Vec<Option<(u64, ReplyOn)>> },
    /// the entry point returned a typed error
    Err(String),
    /// the entry point (or `reply`) panicked
    Panic(String),
    /// the handler succeeded but the chain rejected one of its messages (whole tx rolled back)
    Reject(String),
}

impl Tx {
    pub fn is_ok(&self) -> bool {
        matches!(self, Tx::Ok { .. })
    }
    pub fn kind(&self) -> &'static str {
        match self {
            Tx::Ok { .. } => "ok",
            Tx::Err(_) => "err",
            Tx::Panic(_) => "panic",
            Tx::Reject(_) => "reject",
        }
    }
    pub fn detail(&self) -> String {
        match self {
            Tx::Ok { msgs, .. } => format!("ok({} msgs)", msgs.len()),
            Tx::Err(e) => format!("err({e})"),
            Tx::Panic(e) => format!("panic({e})"),
            Tx::Reject(e) => format!("reject({e})"),
        }
    }
}

#[derive(Clone)]
pub struct WorldState {
    pub bank: BTreeMap<(String, String), T>,
    pub supply: BTreeMap<String, T>,
    pub created: Vec<(String, String)>,
    pub packets: Vec<WPacket>,
    /// next packet sequence of the first channel in use ("home"); IBC numbers packets per channel, so every other
    /// channel has its own counter in `chan_seq`, starting at 1
    pub next_seq: u64,
    pub home_channel: Option<String>,
    pub chan_seq: BTreeMap<String, u64>,
    pub remote: BTreeMap<(String, String), T>,
    pub oracle_posts: Vec<(String, String)>,
}

pub struct Chain {
    pub deps: Deps,
    pub env: Env,
    pub who: Who,
    pub w: WorldState,
    /// fault schedule for the k-th IBC transfer submission of the *next* transaction: 0 = accepted, 1 = the submission
    /// fails, 2 = accepted, but the reply handed to the contract carries no response data
    pub fail_submit: Vec<u8>,
    /// outgoing amounts for which "balance >= amount" was decided (label, balance, amount, forked)
    pub debits: Vec<(String, T, T)>,
    pub trace: Vec<String>,
}

pub fn term_of_amount(s: &str) -> Result<T, String> {
    symcore::term_of_str(s).ok_or_else(|| format!("amount string is not a number: {s:?}"))
}

impl Chain {
    pub fn new(who: Who) -> Chain {
        let mut env = mock_env();
        env.contract.address = Addr::unchecked(who.contract.clone());
        env.block.time = Timestamp::from_seconds(1_700_000_000);
        env.block.height = 1000;
        Chain {
            deps: OwnedDeps { storage: MockStorage::default(), api: MockApi::default(), querier: MockQuerier::default(), custom_query_type: std::marker::PhantomData },
            env,
            who,
            w: WorldState { bank: BTreeMap::new(), supply: BTreeMap::new(), created: vec![], packets: vec![], next_seq: 1, home_channel: None, chan_seq: BTreeMap::new(), remote: BTreeMap::new(), oracle_posts: vec![] },
            fail_submit: vec![],
            debits: vec![],
            trace: vec![],
        }
    }
    pub fn now(&self) -> u64 {
        self.env.block.time.seconds()
    }
    pub fn advance(&mut self, secs: u64) {
        self.env.block.time = self.env.block.time.plus_seconds(secs);
        self.env.block.height += 1;
    }
    pub fn set_time(&mut self, secs: u64) {
        self.env.block.time = Timestamp::from_seconds(secs);
    }
    pub fn bal(&self, a: &str, d: &str) -> T {
        self.w.bank.get(&(a.to_string(), d.to_string())).cloned().unwrap_or_else(|| "0".into())
    }
    pub fn set_bal(&mut self, a: &str, d: &str, v: T) {
        self.w.bank.insert((a.to_string(), d.to_string()), v);
    }
    pub fn credit(&mut self, a: &str, d: &str, amt: &str) {
        let v = t::add(&self.bal(a, d), amt);
        self.set_bal(a, d, v);
    }
    /// Debit that the chain enforces: fails (false) when the balance may be insufficient on this path.
    fn debit_checked(&mut self, a: &str, d: &str, amt: &str, label: &str) -> bool {
        let b = self.bal(a, d);
        self.debits.push((label.to_string(), b.clone(), amt.to_string()));
        if !symcore::decide(t::ge(&b, amt)) {
            return false;
        }
        self.set_bal(a, d, t::sub(&b, amt));
        true
    }
    /// Debit of an external account paying the contract (users are assumed to own what they send).
    fn debit_free(&mut self, a: &str, d: &str, amt: &str) {
        let v = t::sub(&self.bal(a, d), amt);
        self.set_bal(a, d, v);
    }
    pub fn supply_of(&self, d: &str) -> T {
        self.w.supply.get(d).cloned().unwrap_or_else(|| "0".into())
    }
    pub fn remote_bal(&self, a: &str, d: &str) -> T {
        self.w.remote.get(&(a.to_string(), d.to_string())).cloned().unwrap_or_else(|| "0".into())
    }

    // ------------------------------------------------------------------------------------------
    // decoding of emitted messages (independent reader)
    // ------------------------------------------------------------------------------------------
    pub fn decode(&self, m: &CosmosMsg, sub: Option<(u64, ReplyOn)>) -> Result<Emitted, String> {
        match m {
            CosmosMsg::Bank(BankMsg::Send { to_address, amount }) => {
                let coins = amount.iter().map(|c| (c.denom.clone(), t::ut(c.amount))).collect();
                Ok(Emitted::Send { from: self.who.contract.clone(), to: to_address.clone(), coins, via: "BankMsg" })
            }
            CosmosMsg::Stargate { type_url, value } => {
                let p = pb::parse(value.as_slice())?;
                match type_url.as_str() {
                    "/osmosis.tokenfactory.v1beta1.MsgCreateDenom" | "/miniwasm.tokenfactory.v1.MsgCreateDenom" => {
                        if !p.only_fields(&[1, 2]) {
                            return Err("MsgCreateDenom: unknown field".into());
                        }
                        let (s, d) = (p.string(1)?, p.string(2)?);
                        let mut c = vec![];
                        pb::put_str(&mut c, 1, &s);
                        pb::put_str(&mut c, 2, &d);
                        Ok(Emitted::CreateDenom { url: type_url.clone(), sender: s, subdenom: d, canonical: c == value.as_slice() })
                    }
                    "/osmosis.tokenfactory.v1beta1.MsgMint" | "/miniwasm.tokenfactory.v1.MsgMint" => {
                        if !p.only_fields(&[1, 2, 3]) {
                            return Err("MsgMint: unknown field".into());
                        }
                        let coin = p.msg(2)?.ok_or("MsgMint: no amount")?;
                        let (denom, amount) = pb::read_coin(&coin)?;
                        let (s, to) = (p.string(1)?, p.string(3)?);
                        let mut c = vec![];
                        pb::put_str(&mut c, 1, &s);
                        pb::put_len(&mut c, 2, &pb::coin(&denom, &amount));
                        pb::put_str(&mut c, 3, &to);
                        Ok(Emitted::Mint { url: type_url.clone(), sender: s, denom, amount: term_of_amount(&amount)?, to, canonical: c == value.as_slice() })
                    }
                    "/osmosis.tokenfactory.v1beta1.MsgBurn" => {
                        if !p.only_fields(&[1, 2, 3]) {
                            return Err("MsgBurn: unknown field".into());
                        }
                        let coin = p.msg(2)?.ok_or("MsgBurn: no amount")?;
                        let (denom, amount) = pb::read_coin(&coin)?;
                        let (s, from) = (p.string(1)?, p.string(3)?);
                        let mut c = vec![];
                        pb::put_str(&mut c, 1, &s);
                        pb::put_len(&mut c, 2, &pb::coin(&denom, &amount));
                        pb::put_str(&mut c, 3, &from);
                        Ok(Emitted::Burn { url: type_url.clone(), sender: s, denom, amount: term_of_amount(&amount)?, from, canonical: c == value.as_slice() })
                    }
                    "/miniwasm.tokenfactory.v1.MsgBurn" => {
                        if !p.only_fields(&[1, 2]) {
                            return Err("miniwasm MsgBurn: unknown field".into());
                        }
                        let coin = p.msg(2)?.ok_or("MsgBurn: no amount")?;
                        let (denom, amount) = pb::read_coin(&coin)?;
                        let s = p.string(1)?;
                        let mut c = vec![];
                        pb::put_str(&mut c, 1, &s);
                        pb::put_len(&mut c, 2, &pb::coin(&denom, &amount));
                        Ok(Emitted::Burn { url: type_url.clone(), sender: s.clone(), denom, amount: term_of_amount(&amount)?, from: s, canonical: c == value.as_slice() })
                    }
                    "/cosmos.bank.v1beta1.MsgSend" => {
                        if !p.only_fields(&[1, 2, 3]) {
                            return Err("MsgSend: unknown field".into());
                        }
                        let mut coins = vec![];
                        for c in p.msgs(3)? {
                            let (d, a) = pb::read_coin(&c)?;
                            coins.push((d, term_of_amount(&a)?));
                        }
                        Ok(Emitted::Send { from: p.string(1)?, to: p.string(2)?, coins, via: "MsgSend" })
                    }
                    "/ibc.applications.transfer.v1.MsgTransfer" => {
                        if !p.only_fields(&[1, 2, 3, 4, 5, 6, 7, 8]) {
                            return Err("MsgTransfer: unknown field".into());
                        }
                        let coin = p.msg(3)?.ok_or("MsgTransfer: no token")?;
                        let (denom, amount) = pb::read_coin(&coin)?;
                        Ok(Emitted::Transfer {
                            port: p.string(1)?,
                            channel: p.string(2)?,
                            denom,
                            amount: term_of_amount(&amount)?,
                            sender: p.string(4)?,
                            receiver: p.string(5)?,
                            timeout_height_set: p.msg(6)?.is_some(),
                            timeout_ns: p.uint(7)?,
                            memo: p.string(8)?,
                            sub,
                            seq: None,
                        })
                    }
                    "/cosmwasm.wasm.v1.MsgExecuteContract" => {
                        if !p.only_fields(&[1, 2, 3, 5]) {
                            return Err("MsgExecuteContract: unknown field".into());
                        }
                        let payload = String::from_utf8(p.bytes(3)?).map_err(|_| "oracle payload not utf8".to_string())?;
                        Ok(Emitted::OraclePost { sender: p.string(1)?, contract: p.string(2)?, payload, funds: p.all(5).len() })
                    }
                    "/osmosis.poolmanager.v1beta1.MsgSwapExactAmountIn" => {
                        if !p.only_fields(&[1, 2, 3, 4]) {
                            return Err("MsgSwapExactAmountIn: unknown field".into());
                        }
                        let mut routes = vec![];
                        for r in p.msgs(2)? {
                            if !r.only_fields(&[1, 2]) {
                                return Err("SwapAmountInRoute: unknown field".into());
                            }
                            routes.push((r.uint(1)?, r.string(2)?));
                        }
                        let coin = p.msg(3)?.ok_or("swap: no token_in")?;
                        let (d, a) = pb::read_coin(&coin)?;
                        Ok(Emitted::SwapIn { sender: p.string(1)?, routes, token_in: (d, term_of_amount(&a)?), min_out: term_of_amount(&p.string(4)?)? })
                    }
                    "/osmosis.poolmanager.v1beta1.MsgSwapExactAmountOut" => {
                        if !p.only_fields(&[1, 2, 3, 4]) {
                            return Err("MsgSwapExactAmountOut: unknown field".into());
                        }
                        let mut routes = vec![];
                        for r in p.msgs(2)? {
                            if !r.only_fields(&[1, 2]) {
                                return Err("SwapAmountOutRoute: unknown field".into());
                            }
                            routes.push((r.uint(1)?, r.string(2)?));
                        }
                        let coin = p.msg(4)?.ok_or("swap: no token_out")?;
                        let (d, a) = pb::read_coin(&coin)?;
                        Ok(Emitted::SwapOut { sender: p.string(1)?, routes, token_out: (d, term_of_amount(&a)?), max_in: term_of_amount(&p.string(3)?)? })
                    }
                    other => Ok(Emitted::Other { desc: format!("stargate {other}") }),
                }
            }
            other => Ok(Emitted::Other { desc: format!("{other:?}") }),
        }
    }

    // ------------------------------------------------------------------------------------------
    // transaction execution
    // ------------------------------------------------------------------------------------------

    /// Applies one decoded message to the world. Returns Err(reason) when the chain would reject it.
    fn apply(&mut self, e: &mut Emitted, fault_idx: &mut usize) -> Result<(), String> {
        let contract = self.who.contract.clone();
        match e {
            Emitted::CreateDenom { sender, subdenom, .. } => {
                if *sender != contract {
                    return Err("create-denom: signer is not the contract".into());
                }
                if self.w.created.iter().any(|(s, d)| s == sender && d == subdenom) {
                    return Err("create-denom: denom exists".into());
                }
                self.w.created.push((sender.clone(), subdenom.clone()));
                Ok(())
            }
            Emitted::Mint { sender, denom, amount, to, .. } => {
                if *sender != contract {
                    return Err("mint: signer is not the contract".into());
                }
                if !denom.starts_with(&format!("factory/{contract}/")) {
                    return Err("mint: contract is not the admin of this denom".into());
                }
                let to = if to.is_empty() { sender.clone() } else { to.clone() };
                let s = t::add(&self.supply_of(denom), amount);
                self.w.supply.insert(denom.clone(), s);
                self.credit(&to, denom, amount);
                Ok(())
            }
            Emitted::Burn { sender, denom, amount, from, .. } => {
                if *sender != contract {
                    return Err("burn: signer is not the contract".into());
                }
                if !denom.starts_with(&format!("factory/{contract}/")) {
                    return Err("burn: contract is not the admin of this denom".into());
                }
                let from = if from.is_empty() { sender.clone() } else { from.clone() };
                if from != contract {
                    return Err("burn: burning from another account is not permitted".into());
                }
                if !self.debit_checked(&from, denom, amount, "burn") {
                    return Err("burn: insufficient balance".into());
                }
                let s = t::sub(&self.supply_of(denom), amount);
                self.w.supply.insert(denom.clone(), s);
                Ok(())
            }
            Emitted::Send { from, to, coins, .. } => {
                if *from != contract {
                    return Err("send: signer is not the contract".into());
                }
                for (d, a) in coins.iter() {
                    if !self.debit_checked(&contract, d, a, "send") {
                        return Err(format!("send: insufficient balance of {d}"));
                    }
                    self.credit(to, d, a);
                }
                Ok(())
            }
            Emitted::Transfer { sender, receiver, denom, amount, channel, memo, timeout_ns, sub, seq, .. } => {
                if *sender != contract {
                    return Err("transfer: signer is not the contract".into());
                }
                let k = *fault_idx;
                *fault_idx += 1;
                let fault = self.fail_submit.get(k).copied().unwrap_or(0);
                let mut failure: Option<String> = None;
                if fault == 1 {
                    failure = Some("transfer: submission failed (channel closed / client expired)".into());
                } else if !self.debit_checked(&contract, denom, amount, "transfer") {
                    failure = Some(format!("transfer: insufficient balance of {denom}"));
                }
                match (failure, sub.clone()) {
                    (None, s) => {
                        // packet sequences are allocated per channel (ibc-go: nextSequenceSend of the port/channel pair)
                        if self.w.home_channel.is_none() {
                            self.w.home_channel = Some(self.w.packets.first().map(|p| p.channel.clone()).unwrap_or_else(|| channel.clone()));
                        }
                        let sq = if self.w.home_channel.as_deref() == Some(channel.as_str()) {
                            let q = self.w.next_seq;
                            self.w.next_seq += 1;
                            q
                        } else {
                            let e = self.w.chan_seq.entry(channel.clone()).or_insert(1);
                            let q = *e;
                            *e += 1;
                            q
                        };
                        *seq = Some(sq);
                        self.w.packets.push(WPacket { seq: sq, channel: channel.clone(), denom: denom.clone(), amount: amount.clone(), sender: sender.clone(), receiver: receiver.clone(), state: PState::Sent, memo: memo.clone(), timeout_ns: *timeout_ns });
                        if let Some((id, on)) = s {
                            if on == ReplyOn::Always || on == ReplyOn::Success {
                                // MsgTransferResponse { sequence = 1 }
                                let mut data = vec![];
                                pb::put_uint(&mut data, 1, sq);
                                let r = Reply { id, result: SubMsgResult::Ok(SubMsgResponse { events: vec![], data: if fault == 2 { None } else { Some(Binary::from(data)) } }) };
                                return self.call_reply(r);
                            }
                        }
                        Ok(())
                    }
                    (Some(why), Some((id, on))) if on == ReplyOn::Always || on == ReplyOn::Error => {
                        // the sub-message's own effects are reverted (nothing applied), the contract is told
                        let r = Reply { id, result: SubMsgResult::Err(why.clone()) };
                        self.call_reply(r)
                    }
                    (Some(why), _) => Err(why),
                }
            }
            Emitted::OraclePost { sender, contract: c, payload, .. } => {
                if *sender != contract {
                    return Err("wasm execute: signer is not the contract".into());
                }
                self.w.oracle_posts.push((c.clone(), payload.clone()));
                Ok(())
            }
            Emitted::SwapIn { .. } | Emitted::SwapOut { .. } => Ok(()),
            Emitted::Other { desc } => Err(format!("unmodelled message {desc}")),
        }
    }

    fn call_reply(&mut self, r: Reply) -> Result<(), String> {
        let env = self.env.clone();
        let res = symcore::catch(|| staking::contract::reply(self.deps.as_mut(), env, r));
        match res {
            Err(p) if p.contains("SYMX") => panic!("{p}"),
            Err(p) => Err(format!("PANIC in reply: {p}")),
            Ok(Err(e)) => Err(format!("reply error: {e}")),
            Ok(Ok(resp)) => {
                if !resp.messages.is_empty() {
                    return Err("reply emitted messages (unmodelled)".into());
                }
                Ok(())
            }
        }
    }

    fn snapshot(&self) -> (Dump, WorldState) {
        (dump(&self.deps.storage), self.w.clone())
    }
    fn rollback(&mut self, s: &(Dump, WorldState)) {
        restore(&mut self.deps.storage, &s.0);
        self.w = s.1.clone();
    }

    /// One transaction: credit funds, run the entry point, dispatch its messages in order.
    pub fn tx<E: std::fmt::Display>(
        &mut self,
        label: &str,
        sender: &str,
        funds: &[Coin],
        call: impl FnOnce(cosmwasm_std::DepsMut, Env, MessageInfo) -> Result<Response, E>,
    ) -> Tx {
        let snap = self.snapshot();
        self.debits.clear();
        for c in funds {
            let a = t::ut(c.amount);
            self.debit_free(sender, &c.denom, &a);
            let contract = self.who.contract.clone();
            self.credit(&contract, &c.denom, &a);
        }
        let info = MessageInfo { sender: Addr::unchecked(sender), funds: funds.to_vec() };
        let env = self.env.clone();
        self.sync_querier();
        let res = symcore::catch(|| call(self.deps.as_mut(), env, info));
        if let Err(p) = &res {
            if p.contains("SYMX") {
                // not a panic of the code under test: the engine could not model an operation
                panic!("{p}");
            }
        }
        let out = match res {
            Err(p) => {
                self.rollback(&snap);
                Tx::Panic(p)
            }
            Ok(Err(e)) => {
                self.rollback(&snap);
                Tx::Err(e.to_string())
            }
            Ok(Ok(resp)) => {
                let attrs = resp.attributes.iter().map(|a| (a.key.clone(), a.value.clone())).collect();
                let mut msgs = vec![];
                let mut hooks = vec![];
                let mut fault_idx = 0;
                let mut failed = None;
                for sm in &resp.messages {
                    let sub = if sm.reply_on == ReplyOn::Never { None } else { Some((sm.id, sm.reply_on.clone())) };
                    hooks.push(sub.clone());
                    match self.decode(&sm.msg, sub) {
                        Err(e) => {
                            failed = Some(format!("undecodable message: {e}"));
                            break;
                        }
                        Ok(mut em) => {
                            let r = self.apply(&mut em, &mut fault_idx);
                            msgs.push(em);
                            if let Err(e) = r {
                                failed = Some(e);
                                break;
                            }
                        }
                    }
                }
                match failed {
                    Some(e) => {
                        self.rollback(&snap);
                        if e.starts_with("PANIC") {
                            Tx::Panic(e)
                        } else {
                            Tx::Reject(e)
                        }
                    }
                    None => Tx::Ok { msgs, attrs, hooks },
                }
            }
        };
        self.fail_submit.clear();
        self.trace.push(format!("{label} by {} -> {}", self.who.name_of(sender), out.detail()));
        out
    }

    /// Bank queries of the contract about its own balances are answered from the chain model (attached funds included,
    /// as on chain): symbolic balances become amount handles, concrete replays evaluate the ground terms.
    pub fn sync_querier(&mut self) {
        let c = self.who.contract.clone();
        let lst = self.who.lst_denom();
        let mut coins = vec![];
        for d in [crate::addr::NATIVE_DENOM.to_string(), lst] {
            let term = self.bal(&c, &d);
            let amount = if symcore::is_concrete_mode() {
                match t::eval_ground(&term) {
                    Some(v) => cosmwasm_std::Uint128::new(v),
                    None => continue,
                }
            } else if term == "0" {
                continue;
            } else if let Ok(v) = term.parse::<u128>() {
                cosmwasm_std::Uint128::new(v)
            } else {
                cosmwasm_std::Uint128::new(symcore::mk(term))
            };
            coins.push(Coin { denom: d, amount });
        }
        self.deps.querier.update_balance(c, coins);
    }

    pub fn execute(&mut self, sender: &str, funds: &[Coin], msg: staking::msg::ExecuteMsg) -> Tx {
        let label = format!("{msg:?}");
        let label = label.split(|c| c == '{' || c == ' ').next().unwrap_or("").to_string();
        self.tx(&label, sender, funds, |d, e, i| staking::contract::execute(d, e, i, msg))
    }

    /// Anyone can bank-send tokens to the contract (unsolicited deposit).
    pub fn donate(&mut self, from: &str, denom: &str, amt: &str) {
        self.debit_free(from, denom, amt);
        let c = self.who.contract.clone();
        self.credit(&c, denom, amt);
        self.trace.push(format!("donate {denom} by {}", self.who.name_of(from)));
    }

    /// IBC outcome for a world packet. `outcome`: 0 = success ack, 1 = error ack, 2 = timeout.
    /// `channel` lets the harness deliver the callback with a foreign channel id (stray callback).
    pub fn ibc_outcome(&mut self, seq: u64, outcome: u8) -> Tx {
        let idx = match self.w.packets.iter().position(|p| p.seq == seq && p.state == PState::Sent) {
            Some(i) => i,
            None => return Tx::Reject("no such packet in flight".into()),
        };
        let p = self.w.packets[idx].clone();
        if outcome == 0 {
            self.w.packets[idx].state = PState::Delivered;
            let v = t::add(&self.remote_bal(&p.receiver, &p.denom), &p.amount);
            self.w.remote.insert((p.receiver.clone(), p.denom.clone()), v);
        } else {
            self.w.packets[idx].state = PState::Refunded;
            self.credit(&p.sender.clone(), &p.denom, &p.amount);
        }
        self.sudo_callback(&p.channel, seq, outcome)
    }

    /// Raw ibc-hooks callback (also used for stray callbacks the contract never asked for).
    pub fn sudo_callback(&mut self, channel: &str, seq: u64, outcome: u8) -> Tx {
        use staking::msg::{IBCLifecycleComplete as L, SudoMsg};
        let msg = match outcome {
            0 => SudoMsg::IBCLifecycleComplete(L::IBCAck { channel: channel.to_string(), sequence: seq, ack: "{\"result\":\"AQ==\"}".into(), success: true }),
            1 => SudoMsg::IBCLifecycleComplete(L::IBCAck { channel: channel.to_string(), sequence: seq, ack: "{\"error\":\"x\"}".into(), success: false }),
            _ => SudoMsg::IBCLifecycleComplete(L::IBCTimeout { channel: channel.to_string(), sequence: seq }),
        };
        let snap = dump(&self.deps.storage);
        let env = self.env.clone();
        self.sync_querier();
        let res = symcore::catch(|| staking::contract::sudo(self.deps.as_mut(), env, msg));
        if let Err(p) = &res {
            if p.contains("SYMX") {
                panic!("{p}");
            }
        }
        let out = match res {
            Err(p) => {
                restore(&mut self.deps.storage, &snap);
                Tx::Panic(p)
            }
            Ok(Err(e)) => {
                restore(&mut self.deps.storage, &snap);
                Tx::Err(e.to_string())
            }
            Ok(Ok(resp)) => {
                if resp.messages.is_empty() {
                    Tx::Ok { msgs: vec![], attrs: resp.attributes.iter().map(|a| (a.key.clone(), a.value.clone())).collect(), hooks: vec![] }
                } else {
                    restore(&mut self.deps.storage, &snap);
                    Tx::Reject("sudo emitted messages (unmodelled)".into())
                }
            }
        };
        self.trace.push(format!("sudo {channel}/{seq} outcome={outcome} -> {}", out.detail()));
        out
    }
}

pub fn coin(denom: &str, amount: Uint128) -> Coin {
    Coin { denom: denom.to_string(), amount }
}
