//! Bounded histories from `instantiate` with symbolic amounts at every step (DESIGN 2.3 shape (b)):
//! base case of the induction (Inv is *proved* after every step, never assumed), reachability of the
//! structures used by the step suite, and the multi-step clauses (double withdraw, recover-then-ack,
//! accrue / change treasury / withdraw fees, complete exit and re-entry ...).
#![allow(dead_code)]
use crate::scen::{self, Built, CfgSpec, Envelope, Ghost};
use crate::step::{self, Ctx, Filter, Funds, MintTo, Op, P};
use crate::suites::Case;
use cosmwasm_std::Uint128;
use std::collections::BTreeMap;

#[derive(Clone, Debug)]
pub enum H {
    /// operation, expected to succeed? (a path on which the expectation fails ends there)
    Do(Op, bool),
    Advance(u64),
    /// operation without an expectation: obligations are checked, the history continues whatever the outcome
    Try(Op),
    /// switch between fixed constants and fresh symbols for the inputs of the following operations
    Fix(bool),
    /// operation whose argument is chosen from the current store (oldest submitted batch, oldest in-flight packet ...)
    Dyn(DynOp),
}

#[derive(Clone, Debug)]
pub enum DynOp {
    /// ReceiveUnstakedTokens for the oldest Submitted batch from the given account
    RecvOldest(P),
    /// Withdraw by the user from the oldest Received batch in which the user has a request (else batch 1)
    WithdrawAny(usize),
    /// IBC outcome for the oldest transfer still in flight
    IbcOldest(u8),
    /// callback (error ack / timeout) from a *foreign* channel carrying the sequence of the oldest transfer still in flight
    StrayOldest(u8),
}

pub fn fresh(cfg: &CfgSpec) -> Built {
    let fee = Uint128::new(symcore::var("fee_rate"));
    let min = Uint128::new(symcore::var("min_stake"));
    let chain = scen::instantiate(cfg, fee, min);
    let mut wd = BTreeMap::new();
    wd.insert(1u64, "0".to_string());
    let mut wc = BTreeMap::new();
    wc.insert(1u64, 0u64);
    let ghost = Ghost { paid: BTreeMap::new(), wd, wcount: wc, don_n: "0".into(), don_l: "0".into(), delivered: "0".into(), swept: "0".into() };
    Built { chain, ghost, last_stake: None, roundtrip: None, fixed_inputs: std::env::var("SYMX_FIXED").is_ok(), poisoned: false }
}

pub fn hist_case(name: &str, cfg: CfgSpec, steps: Vec<H>) -> Case {
    let cname = format!("hist:{}/{}:{}", cfg.name(), name, steps.len());
    Case {
        name: cname,
        run: Box::new(move |f: &Filter, miniwasm: bool| {
            let mut b = fresh(&cfg);
            let who = b.chain.who.clone();
            let cx = Ctx { f, who: &who, miniwasm };
            // base case: Inv holds right after instantiate
            {
                let sn = scen::snap(&b.chain);
                for c in scen::inv_structural(&sn, &b.chain, &b.ghost) {
                    step::claim(f, &format!("C06:{c}"), false);
                }
                for (label, c) in scen::inv_terms(&sn, &b.chain, &b.ghost) {
                    step::prove(f, &label, c);
                }
                step::claim(f, "C10:a newly instantiated contract is halted", sn.cfg.stopped);
                step::claim(f, "C12:a new staking contract has its instantiator as admin and no pending nomination or lock", sn.admin.as_deref() == Some(who.admin.as_str()) && sn.pending_owner.is_none() && sn.min_time.is_none());
                step::claim(f, "C19:instantiate created the LST denom", b.chain.w.created.iter().any(|(s, d)| *s == who.contract && d == crate::addr::SUBDENOM));
            }
            let mut trace = vec![];
            for (i, h) in steps.iter().enumerate() {
                match h {
                    H::Advance(secs) => b.chain.advance(*secs),
                    H::Fix(on) => b.fixed_inputs = *on || std::env::var("SYMX_FIXED").is_ok(),
                    H::Try(_) | H::Dyn(_) => {
                        let op = match h {
                            H::Try(op) => Some(op.clone()),
                            H::Dyn(d) => {
                                let sn = scen::snap(&b.chain);
                                match d {
                                    DynOp::RecvOldest(p) => sn.batches.iter().find(|(_, x)| x.status == milky_way::staking::BatchStatus::Submitted).map(|(id, _)| Op::ReceiveUnstaked { sender: p.clone(), batch: *id, funds: Funds::Native }),
                                    DynOp::WithdrawAny(u) => {
                                        let user = step::who_addr(&who, &P::U(*u));
                                        let id = sn.batches.iter().find(|(id, x)| x.status == milky_way::staking::BatchStatus::Received && sn.reqs.contains_key(&(**id, user.clone()))).map(|(id, _)| *id).unwrap_or(1);
                                        Some(Op::Withdraw { sender: P::U(*u), batch: id })
                                    }
                                    DynOp::IbcOldest(o) => b.chain.w.packets.iter().find(|p| p.state == crate::world::PState::Sent).map(|p| Op::Ibc { seq: p.seq, outcome: *o }),
                                    DynOp::StrayOldest(o) => b.chain.w.packets.iter().find(|p| p.state == crate::world::PState::Sent).map(|p| Op::StrayCallback { seq: p.seq, outcome: *o, foreign_channel: true }),
                                }
                            }
                            _ => None,
                        };
                        if let Some(op) = op {
                            if let Op::Ibc { seq, .. } = &op {
                                if !b.chain.w.packets.iter().any(|p| p.seq == *seq && p.state == crate::world::PState::Sent) {
                                    continue;
                                }
                            }
                            let out = step::run(&mut b, &op, &format!("s{i}_"), Envelope::C16);
                            if !matches!(op, Op::ResumeStaked { .. }) {
                                step::post_inv(&cx, &b, &out);
                            }
                            step::post_op(&cx, &b, &op, &out);
                            trace.push(format!("{}:{}", op.name().split('{').next().unwrap_or(""), out.tx.kind()));
                            symcore::note(format!("m{i}={}", step::behaviour_digest(&out)));
                            if step::history_broken(&b, &op, &out) {
                                symcore::note(format!("outcome=stopped@{i}:orphan"));
                                symcore::note(format!("detail={}", trace.join(",")));
                                return;
                            }
                        }
                    }
                    H::Do(op, expect_ok) => {
                        let out = step::run(&mut b, op, &format!("s{i}_"), Envelope::C16);
                        // an admin override that re-bases the staked total is outside the invariant's menu (DESIGN 4.4):
                        // Inv is not re-proved on that step; what follows is checked against the re-based ledgers
                        if !matches!(op, Op::ResumeStaked { .. }) {
                            step::post_inv(&cx, &b, &out);
                        }
                        step::post_op(&cx, &b, op, &out);
                        trace.push(format!("{}:{}", op.name().split('{').next().unwrap_or(""), out.tx.kind()));
                        symcore::note(format!("m{i}={}", step::behaviour_digest(&out)));
                        if step::history_broken(&b, op, &out) {
                            symcore::note(format!("outcome=stopped@{i}:orphan"));
                            symcore::note(format!("detail={}", trace.join(",")));
                            return;
                        }
                        if out.tx.is_ok() != *expect_ok {
                            symcore::note(format!("outcome=stopped@{i}:{}", out.tx.kind()));
                            symcore::note(format!("detail={} :: {}", trace.join(","), out.tx.detail()));
                            return;
                        }
                    }
                }
            }
            symcore::note("outcome=ok".to_string());
            symcore::note(format!("detail={}", trace.join(",")));
        }),
    }
}

fn stake(sender: P, mint_to: MintTo, faults: Vec<u8>) -> Op {
    // `Some(true)` only matters when both chains share a prefix: it selects the native-chain delivery
    let flag = if mint_to == MintTo::Native { Some(true) } else { None };
    Op::Stake { sender, mint_to, flag, expected: false, funds: Funds::Native, faults }
}
fn ok(op: Op) -> H {
    H::Do(op, true)
}
fn fails(op: Op) -> H {
    H::Do(op, false)
}
fn resume() -> H {
    ok(Op::Resume { sender: P::Admin, consistent: true })
}

pub const DAY: u64 = 86_400;
pub const UNBOND: u64 = 1_209_600;

pub fn histories(cfg: &CfgSpec, tier: &str) -> Vec<Case> {
    let mut v = vec![];
    let mut add = |name: &str, steps: Vec<H>| v.push(hist_case(name, cfg.clone(), steps));
    let unstake = |u: usize| Op::Unstake { sender: P::U(u), funds: Funds::Lst };
    let rewards = || Op::Rewards { sender: P::HookCollector, funds: Funds::Native, faults: vec![] };
    let recv = |b: u64| Op::ReceiveUnstaked { sender: P::HookStaker, batch: b, funds: Funds::Native };
    let wd = |u: usize, b: u64| Op::Withdraw { sender: P::U(u), batch: b };
    let recover = |r: Option<&'static str>| Op::Recover { sender: P::U(2), paginated: None, selected: None, receiver: r, faults: vec![] };
    // full cycle with two users, double withdraw refused, second cycle
    add(
        "cycle2",
        vec![
            fails(stake(P::U(0), MintTo::None, vec![])), // halted after instantiate
            resume(),
            ok(stake(P::U(0), MintTo::None, vec![])),
            ok(stake(P::U(1), MintTo::None, vec![])),
            ok(unstake(0)),
            ok(unstake(1)),
            fails(Op::Submit { sender: P::U(2) }), // batch period not elapsed
            H::Advance(DAY - 1),
            fails(Op::Submit { sender: P::U(2) }),
            H::Advance(1),
            ok(Op::Submit { sender: P::U(2) }),
            fails(recv(1)), // unbonding period not elapsed
            H::Advance(UNBOND),
            ok(recv(1)),
            ok(wd(1, 1)),
            ok(wd(0, 1)),
            fails(wd(0, 1)),
            fails(wd(2, 1)),
        ],
    );
    // rewards, fee accrual / payout, fee withdraw
    add(
        "rewards",
        vec![
            resume(),
            fails(rewards()), // no LST yet
            ok(stake(P::U(0), MintTo::None, vec![])),
            ok(rewards()),
            ok(stake(P::U(1), MintTo::Proto, vec![])),
            ok(rewards()),
            H::Do(Op::FeeWithdraw { sender: P::Admin }, cfg.treasury),
            ok(unstake(0)),
            H::Advance(DAY),
            ok(Op::Submit { sender: P::U(1) }),
        ],
    );
    // IBC faults on the stake transfer: error ack -> recover -> timeout -> recover -> success
    add(
        "ibcfaults",
        vec![
            resume(),
            ok(stake(P::U(0), MintTo::None, vec![])),
            ok(Op::Ibc { seq: 1, outcome: 1 }),
            fails(Op::Recover { sender: P::U(2), paginated: None, selected: None, receiver: Some("n1"), faults: vec![] }),
            ok(recover(None)),
            fails(recover(None)),
            ok(Op::Ibc { seq: 2, outcome: 2 }),
            ok(Op::StrayCallback { seq: 2, outcome: 0, foreign_channel: true }),
            ok(recover(Some("staker"))),
            ok(Op::Ibc { seq: 3, outcome: 0 }),
            fails(recover(None)),
        ],
    );
    // a timeout callback from a foreign channel that carries the sequence of an in-flight transfer must change nothing
    add(
        "stray-then-recover",
        vec![
            resume(),
            ok(stake(P::U(0), MintTo::None, vec![])),
            ok(Op::StrayCallback { seq: 1, outcome: 2, foreign_channel: true }),
            fails(recover(None)),
            ok(Op::StrayCallback { seq: 1, outcome: 1, foreign_channel: true }),
            fails(recover(None)),
            ok(Op::Ibc { seq: 1, outcome: 0 }),
        ],
    );
    // the same while the contract holds other parties' tokens (a wrongly "refundable" transfer would be re-sent from them)
    add(
        "stray-then-recover-funded",
        vec![
            resume(),
            ok(stake(P::U(0), MintTo::None, vec![])),
            ok(unstake(0)),
            H::Advance(DAY),
            ok(Op::Submit { sender: P::U(1) }),
            H::Advance(UNBOND),
            ok(recv(1)),
            ok(Op::Donate { denom: Funds::Native }),
            ok(stake(P::U(1), MintTo::None, vec![])),
            ok(Op::StrayCallback { seq: 2, outcome: 2, foreign_channel: true }),
            fails(recover(None)),
            ok(Op::Ibc { seq: 2, outcome: 0 }),
            ok(wd(0, 1)),
        ],
    );
    // LST delivery to the native chain fails, is recovered by anyone to the same receiver
    add(
        "lstfault",
        vec![
            resume(),
            ok(stake(P::U(0), MintTo::Native, vec![])),
            ok(Op::Ibc { seq: 2, outcome: 2 }),
            ok(Op::Ibc { seq: 1, outcome: 0 }),
            fails(recover(None)), // nothing refundable for the staker
            ok(recover(Some("n1"))),
            ok(Op::Ibc { seq: 3, outcome: 0 }),
        ],
    );
    // submission failures roll the whole operation back
    add(
        "submitfail",
        vec![resume(), fails(stake(P::U(0), MintTo::None, vec![1])), fails(stake(P::U(0), MintTo::Native, vec![0, 1])), ok(stake(P::U(0), MintTo::Native, vec![])), fails(Op::Rewards { sender: P::HookCollector, funds: Funds::Native, faults: vec![1] })],
    );
    // accepted transfers whose reply carries no response data: nothing may stay untracked; then the usual life cycle
    add(
        "reply-without-data",
        vec![
            resume(),
            H::Try(stake(P::U(0), MintTo::None, vec![2])),
            H::Try(stake(P::U(0), MintTo::Native, vec![0, 2])),
            ok(stake(P::U(0), MintTo::None, vec![])),
            H::Try(Op::Rewards { sender: P::HookCollector, funds: Funds::Native, faults: vec![2] }),
            H::Dyn(DynOp::IbcOldest(2)),
            H::Try(Op::Recover { sender: P::U(2), paginated: None, selected: None, receiver: None, faults: vec![2] }),
            H::Try(Op::Recover { sender: P::U(2), paginated: None, selected: None, receiver: None, faults: vec![] }),
            H::Dyn(DynOp::IbcOldest(0)),
        ],
    );
    // complete exit, then stake again (first stake into an empty pool twice)
    add(
        "exit-reenter",
        vec![
            resume(),
            ok(stake(P::U(0), MintTo::None, vec![])),
            ok(unstake(0)),
            H::Advance(DAY),
            ok(Op::Submit { sender: P::U(0) }),
            ok(stake(P::U(1), MintTo::None, vec![])),
            H::Advance(UNBOND),
            ok(recv(1)),
            ok(wd(0, 1)),
        ],
    );
    // circuit breaker in the middle, resume with the ledger-true totals
    add(
        "breaker",
        vec![
            resume(),
            ok(stake(P::U(0), MintTo::None, vec![])),
            ok(Op::Breaker { sender: P::Monitor }),
            fails(stake(P::U(0), MintTo::None, vec![])),
            fails(unstake(0)),
            fails(Op::Resume { sender: P::Monitor, consistent: true }),
            resume(),
            ok(unstake(0)),
        ],
    );
    // ownership handover and admin rights afterwards
    add(
        "handover",
        vec![
            ok(Op::TransferOwnership { sender: P::Admin, to: P::Nominee }),
            fails(Op::AcceptOwnership { sender: P::Nominee }),
            H::Advance(7 * DAY - 1),
            fails(Op::AcceptOwnership { sender: P::Nominee }),
            H::Advance(1),
            fails(Op::AcceptOwnership { sender: P::U(0) }),
            ok(Op::AcceptOwnership { sender: P::Nominee }),
            fails(Op::AcceptOwnership { sender: P::Nominee }),
            fails(Op::Resume { sender: P::Admin, consistent: true }),
            fails(Op::TransferOwnership { sender: P::Admin, to: P::Nominee }),
            fails(Op::Breaker { sender: P::Admin }),
        ],
    );
    // revocation and re-nomination restart the lock
    add(
        "renominate",
        vec![
            ok(Op::TransferOwnership { sender: P::Admin, to: P::Nominee }),
            H::Advance(7 * DAY),
            ok(Op::RevokeOwnership { sender: P::Admin }),
            fails(Op::AcceptOwnership { sender: P::Nominee }),
            ok(Op::TransferOwnership { sender: P::Admin, to: P::Nominee }),
            fails(Op::AcceptOwnership { sender: P::Nominee }),
            H::Advance(7 * DAY),
            ok(Op::AcceptOwnership { sender: P::Nominee }),
        ],
    );
    // a newer nomination without a revocation in between replaces the older one (also when it names the admin itself)
    for (name, second) in [("own-renominate-other", P::U(0)), ("own-renominate-self", P::Admin), ("own-renominate-same", P::Nominee)] {
        add(
            name,
            vec![
                ok(Op::TransferOwnership { sender: P::Admin, to: P::Nominee }),
                H::Advance(3 * DAY),
                ok(Op::TransferOwnership { sender: P::Admin, to: second.clone() }),
                H::Advance(4 * DAY),
                fails(Op::AcceptOwnership { sender: P::Nominee }),
                H::Advance(3 * DAY),
                H::Try(Op::AcceptOwnership { sender: P::Nominee }),
                H::Try(Op::AcceptOwnership { sender: second.clone() }),
                H::Try(Op::TransferOwnership { sender: P::Admin, to: P::U(1) }),
                H::Try(Op::Breaker { sender: P::Admin }),
            ],
        );
    }
    // reconfiguration of channel, staker and collector: the authenticated hook accounts follow the current configuration
    add(
        "reconfig",
        vec![
            resume(),
            ok(stake(P::U(0), MintTo::None, vec![])),
            ok(unstake(0)),
            H::Advance(DAY),
            ok(Op::Submit { sender: P::U(1) }),
            ok(Op::UpdateConfig { sender: P::Admin, sections: crate::cfgops::S_NATIVE | crate::cfgops::S_PROTOCOL | crate::cfgops::S_KEEP_DENOM }),
            fails(rewards()),
            fails(Op::Rewards { sender: P::HookStaker2, funds: Funds::Native, faults: vec![] }),
            ok(Op::Rewards { sender: P::HookCollector2, funds: Funds::Native, faults: vec![] }),
            H::Advance(UNBOND),
            fails(recv(1)),
            fails(Op::ReceiveUnstaked { sender: P::HookCollector2, batch: 1, funds: Funds::Native }),
            ok(Op::ReceiveUnstaked { sender: P::HookStaker2, batch: 1, funds: Funds::Native }),
        ],
    );
    // the native section alone is replaced (staker / collector rotation, channel unchanged): the accounts derived from the
    // previous native addresses lose their rights at once, also for batches submitted before the rotation
    add(
        "reconfig-native",
        vec![
            resume(),
            ok(stake(P::U(0), MintTo::None, vec![])),
            ok(unstake(0)),
            H::Advance(DAY),
            ok(Op::Submit { sender: P::U(1) }),
            ok(unstake(0)),
            ok(Op::UpdateConfig { sender: P::Admin, sections: crate::cfgops::S_NATIVE }),
            fails(rewards()),
            H::Advance(UNBOND),
            fails(recv(1)),
            ok(Op::Submit { sender: P::U(1) }),
            H::Advance(UNBOND),
            fails(recv(2)),
            fails(recv(1)),
        ],
    );
    // rounding never profits: stake, immediately unstake exactly the minted amount (alone or next to another request), submit
    add(
        "roundtrip",
        vec![resume(), ok(stake(P::U(1), MintTo::None, vec![])), ok(rewards()), ok(stake(P::U(0), MintTo::None, vec![])), ok(Op::UnstakeMinted { sender: P::U(0) }), H::Advance(DAY), ok(Op::Submit { sender: P::U(2) })],
    );
    add(
        "roundtrip2",
        vec![resume(), ok(stake(P::U(1), MintTo::None, vec![])), ok(rewards()), ok(unstake(1)), ok(stake(P::U(0), MintTo::None, vec![])), ok(Op::UnstakeMinted { sender: P::U(0) }), H::Advance(DAY), ok(Op::Submit { sender: P::U(2) })],
    );
    // fee accrual / payout across treasury changes (C11 quantifier)
    add(
        "treasury-changes",
        vec![
            resume(),
            ok(stake(P::U(0), MintTo::None, vec![])),
            ok(rewards()),
            ok(Op::SetTreasury { on: false }),
            ok(rewards()),
            fails(Op::FeeWithdraw { sender: P::Admin }),
            ok(Op::SetTreasury { on: true }),
            ok(rewards()),
            ok(Op::FeeWithdraw { sender: P::Admin }),
            ok(Op::SetTreasury { on: false }),
            ok(rewards()),
            ok(Op::SetTreasury { on: true }),
            ok(Op::FeeWithdraw { sender: P::Admin }),
        ],
    );
    // only the channel changes, after both hook accounts have already been used once (stale authentication data must not survive)
    add(
        "rechannel",
        vec![
            resume(),
            ok(stake(P::U(0), MintTo::None, vec![])),
            ok(unstake(0)),
            H::Advance(DAY),
            ok(Op::Submit { sender: P::U(1) }),
            ok(stake(P::U(1), MintTo::None, vec![])),
            ok(unstake(1)),
            H::Advance(DAY),
            ok(Op::Submit { sender: P::U(1) }),
            ok(rewards()),
            H::Advance(UNBOND),
            ok(recv(1)),
            ok(Op::UpdateConfig { sender: P::Admin, sections: crate::cfgops::S_PROTOCOL | crate::cfgops::S_KEEP_DENOM }),
            fails(rewards()),
            fails(recv(2)),
            fails(Op::Rewards { sender: P::HookStaker3, funds: Funds::Native, faults: vec![] }),
            ok(Op::Rewards { sender: P::HookCollector3, funds: Funds::Native, faults: vec![] }),
            fails(Op::ReceiveUnstaked { sender: P::HookCollector3, batch: 2, funds: Funds::Native }),
            ok(Op::ReceiveUnstaked { sender: P::HookStaker3, batch: 2, funds: Funds::Native }),
        ],
    );
    // admin re-bases the totals with LST = 0 < staked: the next stake sweeps stake the contract does not hold
    add("resume-sweep-roundtrip", vec![ok(Op::ResumeStaked { sender: P::Admin }), ok(stake(P::U(0), MintTo::None, vec![])), ok(Op::UnstakeMinted { sender: P::U(0) }), H::Advance(DAY), ok(Op::Submit { sender: P::U(2) })]);
    add("resume-sweep", vec![ok(Op::ResumeStaked { sender: P::Admin }), ok(stake(P::U(0), MintTo::None, vec![])), H::Do(Op::FeeWithdraw { sender: P::Admin }, cfg.treasury)]);
    // fault grid (C07 quantifier): every assignment of {success, error ack, timeout} to the three transfers of
    // "stake to the staker" + "stake with native-chain delivery", delivered in several orders, followed by the
    // permissionless recoveries and successful delivery of the re-sent transfers
    let orders: Vec<[usize; 3]> = if tier == "thorough" { vec![[0, 1, 2], [0, 2, 1], [1, 0, 2], [1, 2, 0], [2, 0, 1], [2, 1, 0]] } else { vec![[0, 1, 2], [2, 1, 0]] };
    for o1 in 0..3u8 {
        for o2 in 0..3u8 {
            for o3 in 0..3u8 {
                for (oi, ord) in orders.iter().enumerate() {
                    let outs = [o1, o2, o3];
                    // packets: 1 = stake of U0 (native -> staker), 2 = stake of U1 (native -> staker), 3 = LST of U1 -> n1
                    let mut steps = vec![resume(), ok(stake(P::U(0), MintTo::None, vec![])), ok(stake(P::U(1), MintTo::Native, vec![]))];
                    for &k in ord.iter() {
                        steps.push(ok(Op::Ibc { seq: (k + 1) as u64, outcome: outs[k] }));
                    }
                    let native_failed = (o1 != 0) as u64 + (o2 != 0) as u64;
                    let lst_failed = o3 != 0;
                    let mut next = 4u64;
                    // staker recovery: succeeds iff a native transfer was refunded
                    steps.push(H::Do(recover(None), native_failed > 0));
                    if native_failed > 0 {
                        steps.push(fails(recover(None)));
                        steps.push(ok(Op::Ibc { seq: next, outcome: 0 }));
                        next += 1;
                    }
                    steps.push(H::Do(recover(Some("n1")), lst_failed));
                    if lst_failed {
                        steps.push(ok(Op::Ibc { seq: next, outcome: 1 }));
                        steps.push(ok(recover(Some("n1"))));
                        steps.push(ok(Op::Ibc { seq: next + 1, outcome: 0 }));
                    }
                    steps.push(fails(recover(Some("n1"))));
                    steps.push(fails(recover(None)));
                    add(&format!("faults-{o1}{o2}{o3}-o{oi}"), steps);
                }
            }
        }
    }
    if tier == "thorough" {
        add(
            "cycle3-slash",
            vec![
                resume(),
                ok(stake(P::U(0), MintTo::None, vec![])),
                ok(stake(P::U(1), MintTo::None, vec![])),
                ok(stake(P::U(2), MintTo::None, vec![])),
                ok(rewards()),
                ok(unstake(0)),
                ok(unstake(1)),
                ok(unstake(0)),
                ok(unstake(2)),
                H::Advance(DAY),
                ok(Op::Submit { sender: P::U(2) }),
                ok(unstake(1)),
                H::Advance(UNBOND),
                ok(recv(1)),
                ok(wd(2, 1)),
                ok(Op::Submit { sender: P::U(2) }),
                ok(wd(0, 1)),
                ok(wd(1, 1)),
                H::Advance(UNBOND),
                ok(recv(2)),
                ok(wd(1, 2)),
            ],
        );
    }
    v
}


/// Alphabet of the generated sequences (suite `seq`).
pub fn alphabet() -> Vec<(&'static str, Vec<H>)> {
    let st = |s: P, m: MintTo| H::Try(stake(s, m, vec![]));
    vec![
        ("stake", vec![st(P::U(0), MintTo::None)]),
        ("stakeN", vec![st(P::U(1), MintTo::Native)]),
        ("unstake", vec![H::Try(Op::Unstake { sender: P::U(0), funds: Funds::Lst })]),
        ("submit", vec![H::Advance(DAY), H::Try(Op::Submit { sender: P::U(2) })]),
        ("recv", vec![H::Advance(UNBOND), H::Dyn(DynOp::RecvOldest(P::HookStaker))]),
        ("recv3", vec![H::Advance(UNBOND), H::Dyn(DynOp::RecvOldest(P::HookStaker3))]),
        ("withdraw", vec![H::Dyn(DynOp::WithdrawAny(0))]),
        ("rewards", vec![H::Try(Op::Rewards { sender: P::HookCollector, funds: Funds::Native, faults: vec![] })]),
        ("rewards3", vec![H::Try(Op::Rewards { sender: P::HookCollector3, funds: Funds::Native, faults: vec![] })]),
        ("rechannel", vec![H::Try(Op::UpdateConfig { sender: P::Admin, sections: crate::cfgops::S_PROTOCOL | crate::cfgops::S_KEEP_DENOM })]),
        ("treasuryOn", vec![H::Try(Op::SetTreasury { on: true })]),
        ("treasuryOff", vec![H::Try(Op::SetTreasury { on: false })]),
        ("ibcErr", vec![H::Dyn(DynOp::IbcOldest(1))]),
        ("ibcTimeout", vec![H::Dyn(DynOp::IbcOldest(2))]),
        ("ibcOk", vec![H::Dyn(DynOp::IbcOldest(0))]),
        ("strayTimeout", vec![H::Dyn(DynOp::StrayOldest(2))]),
        ("strayErr", vec![H::Dyn(DynOp::StrayOldest(1))]),
        ("recover", vec![H::Try(Op::Recover { sender: P::U(2), paginated: None, selected: None, receiver: None, faults: vec![] })]),
        ("recoverN", vec![H::Try(Op::Recover { sender: P::U(2), paginated: Some(true), selected: None, receiver: Some("n1"), faults: vec![] })]),
        ("feeWithdraw", vec![H::Try(Op::FeeWithdraw { sender: P::Admin })]),
        ("breaker", vec![H::Try(Op::Breaker { sender: P::Monitor })]),
        ("resume", vec![H::Try(Op::Resume { sender: P::Admin, consistent: true })]),
        ("donate", vec![H::Try(Op::Donate { denom: Funds::Native })]),
    ]
}

fn prefixes() -> Vec<(&'static str, Vec<H>)> {
    let unstake = |u: usize| Op::Unstake { sender: P::U(u), funds: Funds::Lst };
    vec![
        ("p0", vec![H::Fix(true), resume(), ok(stake(P::U(0), MintTo::None, vec![])), ok(stake(P::U(1), MintTo::Native, vec![])), H::Fix(false)]),
        (
            "p1",
            vec![
                H::Fix(true),
                resume(),
                ok(stake(P::U(0), MintTo::None, vec![])),
                ok(stake(P::U(1), MintTo::None, vec![])),
                ok(unstake(0)),
                ok(unstake(1)),
                H::Advance(DAY),
                ok(Op::Submit { sender: P::U(2) }),
                ok(unstake(0)),
                ok(Op::Rewards { sender: P::HookCollector, funds: Funds::Native, faults: vec![] }),
                H::Fix(false),
            ],
        ),
    ]
}

/// Every sequence of `depth` letters over the alphabet after each prefix; the quick tier keeps a seed-dependent 1/stride sample.
pub fn sequences(cfg: &CfgSpec, tier: &str, seed: u64) -> Vec<Case> {
    let al = alphabet();
    let n = al.len();
    let mut v = vec![];
    // every sequence of two letters (both tiers)
    for (pn, pre) in prefixes() {
        for a in 0..n {
            for b2 in 0..n {
                let mut steps = pre.clone();
                steps.extend(al[a].1.clone());
                steps.extend(al[b2].1.clone());
                let mut case = hist_case(&format!("{pn}.{}.{}.", al[a].0, al[b2].0), cfg.clone(), steps);
                case.name = case.name.replacen("hist:", "seq:", 1);
                v.push(case);
            }
        }
    }
    let depth = 3;
    // share of the 2 x 23^3 three-letter sequences that is explored: quick 1/96 (seed-dependent offset), thorough 1/6; SYMX_SEQ_STRIDE=1 explores all
    let stride: usize = std::env::var("SYMX_SEQ_STRIDE").ok().and_then(|s| s.parse().ok()).unwrap_or(if tier == "thorough" { 6 } else { 96 });
    for (pn, pre) in prefixes() {
        let total = n.pow(depth as u32);
        for code in 0..total {
            if (code + seed as usize) % stride != 0 {
                continue;
            }
            let mut steps = pre.clone();
            let mut name = String::new();
            let mut c = code;
            for _ in 0..depth {
                let (ln, hs) = &al[c % n];
                c /= n;
                steps.extend(hs.clone());
                name.push_str(ln);
                name.push('.');
            }
            let mut case = hist_case(&format!("{pn}.{name}"), cfg.clone(), steps);
            case.name = case.name.replacen("hist:", "seq:", 1);
            v.push(case);
        }
    }
    v
}
