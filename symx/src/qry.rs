//! C17 (engine S part): the real query entry point on stores of the structure family with symbolic
//! amounts, compared with the snapshot read directly from storage. Store shapes, cursors, limits,
//! filters and id lists are enumerated (small scope); amounts are decided by the solver.
#![allow(dead_code)]
use crate::scen::{self, Envelope, Snap, Structure};
use crate::step::{claim, prove, Filter};
use crate::suites::Case;
use crate::t::{self, T};
use cosmwasm_std::{from_json, Addr};
use milky_way::staking::BatchStatus;
use staking::msg::{BatchResponse, BatchesResponse, IBCQueueResponse, QueryMsg, StateResponse};
use staking::state::UnstakeRequest;

fn status_str(s: &BatchStatus) -> &'static str {
    match s {
        BatchStatus::Pending => "pending",
        BatchStatus::Submitted => "submitted",
        BatchStatus::Received => "received",
    }
}

fn batch_matches(f: &Filter, label: &str, got: &BatchResponse, id: u64, sn: &Snap) {
    let b = &sn.batches[&id];
    let shape = got.id == id && got.status == status_str(&b.status) && got.unstake_request_count == b.count.unwrap_or(0) && got.next_batch_action_time.seconds() == b.next.unwrap_or(0);
    claim(f, &format!("C17:{label}: id, status, counter and deadline are reported faithfully"), shape);
    let zero = "0".to_string();
    prove(
        f,
        &format!("C17:{label}: amounts are reported faithfully"),
        t::and(&[t::eq(&t::ut(got.batch_total_liquid_stake), &b.total), t::eq(&t::ut(got.expected_native_unstaked), b.expected.as_ref().unwrap_or(&zero)), t::eq(&t::ut(got.received_native_unstaked), b.received.as_ref().unwrap_or(&zero))]),
    );
}

pub fn query_case(s: Structure) -> Case {
    Case {
        name: format!("qry:{}", s.name),
        run: Box::new(move |f: &Filter, _mw: bool| {
            let b = scen::build(&s);
            let sn = scen::assume_inv(&b.chain, &b.ghost, Envelope::C16);
            let who = b.chain.who.clone();
            let env = b.chain.env.clone();
            let q = |m: QueryMsg| symcore::catch(|| staking::contract::query(b.chain.deps.as_ref(), env.clone(), m));
            let mut panics = 0;
            let mut run = |m: QueryMsg| -> Option<cosmwasm_std::Binary> {
                match q(m.clone()) {
                    Err(p) => {
                        panics += 1;
                        prove(f, &format!("C16:no panic [{}]", crate::step::panic_key(&p)), "false".into());
                        None
                    }
                    Ok(Err(_)) => None,
                    Ok(Ok(bin)) => Some(bin),
                }
            };
            let ids: Vec<u64> = sn.batches.keys().cloned().collect();
            let nb = ids.len() as u64;
            // ---- Batches: every (start_after, limit, status) triple of the scope
            let statuses = [None, Some(BatchStatus::Pending), Some(BatchStatus::Submitted), Some(BatchStatus::Received)];
            let mut starts: Vec<Option<u64>> = vec![None];
            for i in 0..=nb + 1 {
                starts.push(Some(i));
            }
            starts.push(Some(u64::MAX));
            let limits = [None, Some(0u32), Some(1), Some(2), Some(3), Some(10), Some(u32::MAX)];
            for st in &statuses {
                for sa in &starts {
                    for lim in &limits {
                        let want: Vec<u64> = ids.iter().cloned().filter(|id| sa.map(|s| *id > s).unwrap_or(true)).filter(|id| st.as_ref().map(|x| sn.batches[id].status == *x).unwrap_or(true)).take(lim.map(|l| l as usize).unwrap_or(usize::MAX)).collect();
                        match run(QueryMsg::Batches { start_after: *sa, limit: *lim, status: st.clone() }) {
                            None => claim(f, "C17:Batches query answers", false),
                            Some(bin) => {
                                let r: BatchesResponse = from_json(&bin).expect("SYMX-HARNESS: decode BatchesResponse");
                                let got: Vec<u64> = r.batches.iter().map(|x| x.id).collect();
                                claim(f, "C17:Batches returns exactly the matching batches after the cursor, ascending, limited", got == want);
                                if got == want && lim.is_none() {
                                    for x in &r.batches {
                                        batch_matches(f, "Batches", x, x.id, &sn);
                                    }
                                }
                            }
                        }
                    }
                }
                // paging law: pages of size L chained through the last returned id reproduce the unpaginated list
                for l in 1..=3u32 {
                    let mut all: Vec<u64> = vec![];
                    let mut cursor: Option<u64> = None;
                    let mut guard = 0;
                    loop {
                        guard += 1;
                        let page: Vec<u64> = match run(QueryMsg::Batches { start_after: cursor, limit: Some(l), status: st.clone() }) {
                            Some(bin) => from_json::<BatchesResponse>(&bin).unwrap().batches.iter().map(|x| x.id).collect(),
                            None => vec![],
                        };
                        if page.is_empty() || guard > 20 {
                            break;
                        }
                        cursor = page.last().cloned();
                        all.extend(page);
                    }
                    let want: Vec<u64> = ids.iter().cloned().filter(|id| st.as_ref().map(|x| sn.batches[id].status == *x).unwrap_or(true)).collect();
                    claim(f, "C17:paging through Batches returns every matching batch exactly once in ascending order", all == want);
                }
            }
            // ---- BatchesByIds
            let lists: Vec<Vec<u64>> = vec![vec![], vec![1], vec![0], vec![nb, 1], vec![1, 1], vec![nb + 1, 2, 99], vec![3, 2, 1]];
            for l in lists {
                let want: Vec<u64> = l.iter().cloned().filter(|i| sn.batches.contains_key(i)).collect();
                match run(QueryMsg::BatchesByIds { ids: l.clone() }) {
                    None => claim(f, "C17:BatchesByIds answers", false),
                    Some(bin) => {
                        let r: BatchesResponse = from_json(&bin).unwrap();
                        let got: Vec<u64> = r.batches.iter().map(|x| x.id).collect();
                        claim(f, "C17:BatchesByIds returns exactly the existing requested batches", got == want);
                        if got == want {
                            for x in &r.batches {
                                batch_matches(f, "BatchesByIds", x, x.id, &sn);
                            }
                        }
                    }
                }
            }
            // ---- Batch / PendingBatch
            for id in 0..=nb + 1 {
                let r = run(QueryMsg::Batch { id });
                claim(f, "C17:Batch answers exactly for existing ids", r.is_some() == sn.batches.contains_key(&id));
                if let Some(bin) = r {
                    let x: BatchResponse = from_json(&bin).unwrap();
                    if sn.batches.contains_key(&id) {
                        batch_matches(f, "Batch", &x, id, &sn);
                    }
                }
            }
            if let Some(bin) = run(QueryMsg::PendingBatch {}) {
                let x: BatchResponse = from_json(&bin).unwrap();
                claim(f, "C17:PendingBatch is the highest batch", x.id == sn.pending_id);
                batch_matches(f, "PendingBatch", &x, sn.pending_id, &sn);
            } else {
                claim(f, "C17:PendingBatch answers", false);
            }
            // ---- IbcQueue paging
            let seqs: Vec<u64> = sn.packets.keys().cloned().collect();
            let mut sstarts: Vec<Option<u64>> = vec![None, Some(0), Some(u64::MAX)];
            for s in &seqs {
                sstarts.push(Some(*s));
                sstarts.push(Some(*s - 1));
            }
            for sa in &sstarts {
                for lim in [None, Some(0u32), Some(1), Some(2), Some(20)] {
                    let want: Vec<u64> = seqs.iter().cloned().filter(|q| sa.map(|s| *q > s).unwrap_or(true)).take(lim.map(|l| l as usize).unwrap_or(usize::MAX)).collect();
                    match run(QueryMsg::IbcQueue { start_after: *sa, limit: lim }) {
                        None => claim(f, "C17:IbcQueue answers", false),
                        Some(bin) => {
                            let r: IBCQueueResponse = from_json(&bin).unwrap();
                            let got: Vec<u64> = r.ibc_queue.iter().map(|x| x.sequence).collect();
                            claim(f, "C17:IbcQueue pages like Batches (after the cursor, ascending, limited)", got == want);
                            if got == want {
                                let mut cs = vec![];
                                let mut shape = true;
                                for x in &r.ibc_queue {
                                    let p = &sn.packets[&x.sequence];
                                    shape = shape && x.amount.denom == p.0 && x.receiver == p.2 && x.status == p.3;
                                    cs.push(t::eq(&t::ut(x.amount.amount), &p.1));
                                }
                                claim(f, "C17:IbcQueue reports denom, receiver and status faithfully", shape);
                                prove(f, "C17:IbcQueue reports amounts faithfully", t::and(&cs));
                            }
                        }
                    }
                }
            }
            let _ = run(QueryMsg::IbcReplyQueue { start_after: None, limit: None });
            // ---- UnstakeRequests per user
            for u in [who.u1.clone(), who.u2.clone(), who.u3.clone(), who.admin.clone()] {
                let want: Vec<(u64, T)> = sn.reqs.iter().filter(|((_, usr), _)| *usr == u).map(|((b, _), a)| (*b, a.clone())).collect();
                match run(QueryMsg::UnstakeRequests { user: Addr::unchecked(u.clone()) }) {
                    None => claim(f, "C17:UnstakeRequests answers", false),
                    Some(bin) => {
                        let r: Vec<UnstakeRequest> = from_json(&bin).unwrap();
                        let got: Vec<u64> = r.iter().map(|x| x.batch_id).collect();
                        claim(f, "C17:UnstakeRequests returns exactly the user's open requests across all batches", got == want.iter().map(|x| x.0).collect::<Vec<_>>() && r.iter().all(|x| x.user == u));
                        if got.len() == want.len() {
                            let cs: Vec<T> = r.iter().zip(want.iter()).map(|(x, w)| t::eq(&t::ut(x.amount), &w.1)).collect();
                            prove(f, "C17:UnstakeRequests reports the current amounts", t::and(&cs));
                        }
                    }
                }
            }
            let all_n = sn.reqs.len();
            for (sa, lim) in [(None, None), (None, Some(1u32)), (Some(1u64), None), (Some(0), Some(2))] {
                if let Some(bin) = run(QueryMsg::AllUnstakeRequests { start_after: sa, limit: lim }) {
                    let r: Vec<UnstakeRequest> = from_json(&bin).unwrap();
                    if sa.is_none() && lim.is_none() {
                        claim(f, "C17:AllUnstakeRequests lists every open request once", r.len() == all_n);
                    }
                }
                let _ = run(QueryMsg::AllUnstakeRequestsV2 { start_after: sa, limit: lim });
            }
            // ---- State / Config
            if let Some(bin) = run(QueryMsg::State {}) {
                let r: StateResponse = from_json(&bin).unwrap();
                prove(f, "C17:State reports the stored totals", t::and(&[t::eq(&t::ut(r.total_native_token), &sn.n), t::eq(&t::ut(r.total_liquid_stake_token), &sn.l), t::eq(&t::ut(r.total_fees), &sn.fees), t::eq(&t::ut(r.total_reward_amount), &sn.rewards)]));
                let (_, pur) = crate::step::rate_terms(&sn.n, &sn.l);
                prove(f, "C15:the State query reports the purchase rate of the current totals", t::eq(&t::ut(r.rate.atomics()), &pur));
            } else {
                claim(f, "C17:State answers", false);
            }
            claim(f, "C17:Config answers", run(QueryMsg::Config {}).is_some());
            claim(f, "C16:entry point returned a result or a typed error", panics == 0);
            symcore::note("outcome=ok".into());
        }),
    }
}

pub fn cases(tier: &str, seed: u64) -> Vec<Case> {
    crate::suites::structures(tier, seed).into_iter().map(query_case).collect()
}
