//! SMT-LIB term builders (strings over `Int` / `Bool`).
#![allow(dead_code)]
use cosmwasm_std::Uint128;

pub type T = String;

pub fn lit(n: u128) -> T {
    n.to_string()
}
pub fn ut(v: Uint128) -> T {
    symcore::term(v.u128())
}
pub fn u(v: u128) -> T {
    symcore::term(v)
}
fn bin(op: &str, a: &str, b: &str) -> T {
    format!("({op} {a} {b})")
}
pub fn add(a: &str, b: &str) -> T {
    if a == "0" {
        return b.to_string();
    }
    if b == "0" {
        return a.to_string();
    }
    bin("+", a, b)
}
pub fn sub(a: &str, b: &str) -> T {
    if b == "0" {
        return a.to_string();
    }
    bin("-", a, b)
}
pub fn mul(a: &str, b: &str) -> T {
    bin("*", a, b)
}
pub fn div(a: &str, b: &str) -> T {
    bin("div", a, b)
}
pub fn eq(a: &str, b: &str) -> T {
    bin("=", a, b)
}
pub fn ne(a: &str, b: &str) -> T {
    format!("(not (= {a} {b}))")
}
pub fn le(a: &str, b: &str) -> T {
    bin("<=", a, b)
}
pub fn lt(a: &str, b: &str) -> T {
    bin("<", a, b)
}
pub fn ge(a: &str, b: &str) -> T {
    bin(">=", a, b)
}
pub fn gt(a: &str, b: &str) -> T {
    bin(">", a, b)
}
pub fn not(a: &str) -> T {
    format!("(not {a})")
}
pub fn implies(a: &str, b: &str) -> T {
    bin("=>", a, b)
}
pub fn ite(c: &str, a: &str, b: &str) -> T {
    format!("(ite {c} {a} {b})")
}
pub fn and(xs: &[T]) -> T {
    match xs.len() {
        0 => "true".into(),
        1 => xs[0].clone(),
        _ => format!("(and {})", xs.join(" ")),
    }
}
pub fn or(xs: &[T]) -> T {
    match xs.len() {
        0 => "false".into(),
        1 => xs[0].clone(),
        _ => format!("(or {})", xs.join(" ")),
    }
}
pub fn sum(xs: &[T]) -> T {
    let xs: Vec<&T> = xs.iter().filter(|x| *x != "0").collect();
    match xs.len() {
        0 => "0".into(),
        1 => xs[0].clone(),
        _ => format!("(+ {})", xs.iter().map(|s| s.as_str()).collect::<Vec<_>>().join(" ")),
    }
}
/// floor(a*n/d) as cosmwasm documents `multiply_ratio`
pub fn mulratio(a: &str, n: &str, d: &str) -> T {
    format!("(div (* {a} {n}) {d})")
}
pub const E18: &str = "1000000000000000000";
pub const E27: &str = "1000000000000000000000000000";
pub const E30: &str = "1000000000000000000000000000000";

/// Value of a ground term built from numerals with + and - (bank balances in concrete replays).
pub fn eval_ground(t: &str) -> Option<u128> {
    fn go(toks: &[String], i: &mut usize) -> Option<i128> {
        let tk = toks.get(*i)?.clone();
        *i += 1;
        if tk == "(" {
            let op = toks.get(*i)?.clone();
            *i += 1;
            let mut args = vec![];
            while toks.get(*i)? != ")" {
                args.push(go(toks, i)?);
            }
            *i += 1;
            match op.as_str() {
                "+" => Some(args.iter().sum()),
                "-" => {
                    if args.len() == 1 {
                        Some(-args[0])
                    } else {
                        Some(args[0] - args[1..].iter().sum::<i128>())
                    }
                }
                _ => None,
            }
        } else {
            tk.parse::<i128>().ok()
        }
    }
    let toks: Vec<String> = t.replace('(', " ( ").replace(')', " ) ").split_whitespace().map(|x| x.to_string()).collect();
    let mut i = 0;
    let v = go(&toks, &mut i)?;
    if i == toks.len() && v >= 0 {
        Some(v as u128)
    } else {
        None
    }
}
