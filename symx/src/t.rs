//! SMT-LIB term builders (strings over `Int` / `Bool`).
#![allow(dead_code)]
use cosmwasm_std::Uint128;

pub type T = String;

pub fn lit(n: u128) -> T {
    n.to_string()
}
pub fn ut(v: Uint128) -> T {
    symcore::term(v.u128())
}
pub fn u(v: u128) -> T {
    symcore::term(v)
}
fn bin(op: &str, a: &str, b: &str) -> T {
    format!("({op} {a} {b})")
}
pub fn add(a: &str, b: &str) -> T {
    if a == "0" {
        return b.to_string();
    }
    if b == "0" {
        return a.to_string();
    }
    bin("+", a, b)
}
pub fn sub(a: &str, b: &str) -> T {
    if b == "0" {
        return a.to_string();
    }
    bin("-", a, b)
}
pub fn mul(a: &str, b: &str) -> T {
    bin("*", a, b)
}
pub fn div(a: &str, b: &str) -> T {
    bin("div", a, b)
}
pub fn eq(a: &str, b: &str) -> T {
    bin("=", a, b)
}
pub fn ne(a: &str, b: &str) -> T {
    format!("(not (= {a} {b}))")
}
pub fn le(a: &str, b: &str) -> T {
    bin("<=", a, b)
}
pub fn lt(a: &str, b: &str) -> T {
    bin("<", a, b)
}
pub fn ge(a: &str, b: &str) -> T {
    bin(">=", a, b)
}
pub fn gt(a: &str, b: &str) -> T {
    bin(">", a, b)
}
pub fn not(a: &str) -> T {
    format!("(not {a})")
}
pub fn implies(a: &str, b: &str) -> T {
    bin("=>", a, b)
}
pub fn ite(c: &str, a: &str, b: &str) -> T {
    format!("(ite {c} {a} {b})")
}
pub fn and(xs: &[T]) -> T {
    match xs.len() {
        0 => "true".into(),
        1 => xs[0].clone(),
        _ => format!("(and {})", xs.join(" ")),
    }
}
pub fn or(xs: &[T]) -> T {
    match xs.len() {
        0 => "false".into(),
        1 => xs[0].clone(),
        _ => format!("(or {})", xs.join(" ")),
    }
}
pub fn sum(xs: &[T]) -> T {
    let xs: Vec<&T> = xs.iter().filter(|x| *x != "0").collect();
    match xs.len() {
        0 => "0".into(),
        1 => xs[0].clone(),
        _ => format!("(+ {})", xs.iter().map(|s| s.as_str()).collect::<Vec<_>>().join(" ")),
    }
}
/// floor(a*n/d) as cosmwasm documents `multiply_ratio`
pub fn mulratio(a: &str, n: &str, d: &str) -> T {
    format!("(div (* {a} {n}) {d})")
}
pub const E18: &str = "1000000000000000000";
pub const E27: &str = "1000000000000000000000000000";
pub const E30: &str = "1000000000000000000000000000000";
