//! C14 (enumeration part, labelled as such): field-level corruption matrix of valid configurations
//! pushed through the real `instantiate` and `UpdateConfig` entry points. Every corrupted message
//! must be refused, the uncorrupted one accepted. This is *not* a solver verdict over all strings
//! (DESIGN section 7); numeric fields stay symbolic.
#![allow(dead_code)]
use crate::addr::{self, Who};
use crate::scen::{self, CfgSpec};
use crate::step::{claim, Filter};
use crate::suites::Case;
use crate::world::{dump, Chain};
use cosmwasm_std::Uint128;
use staking::msg::{ExecuteMsg, InstantiateMsg};

#[derive(Clone, Debug)]
pub struct Corruption {
    pub name: &'static str,
    /// mutates the message; returns false when not applicable
    pub apply: fn(&mut InstantiateMsg, &Who),
    /// which UpdateConfig section carries the corrupted field (0 = instantiate only)
    pub section: u8,
}

fn flip_last(s: &str) -> String {
    let mut c: Vec<char> = s.chars().collect();
    let n = c.len();
    c[n - 1] = if c[n - 1] == 'q' { 'p' } else { 'q' };
    c.into_iter().collect()
}
fn mixed(s: &str) -> String {
    let mut out = String::new();
    let mut up = true;
    for ch in s.chars() {
        if ch.is_ascii_alphabetic() && up {
            out.push(ch.to_ascii_uppercase());
            up = false;
        } else {
            out.push(ch);
        }
    }
    out
}

pub fn corruptions() -> Vec<Corruption> {
    use crate::cfgops::{S_FEE, S_MONITORS, S_NATIVE, S_PROTOCOL};
    vec![
        // prefixes
        Corruption { name: "native prefix empty", apply: |m, _| m.native_chain_config.account_address_prefix = "".into(), section: S_NATIVE },
        Corruption { name: "native prefix mixed case", apply: |m, _| m.native_chain_config.account_address_prefix = "Celestia".into(), section: S_NATIVE },
        Corruption { name: "native prefix with a space", apply: |m, _| m.native_chain_config.account_address_prefix = "cele stia".into(), section: S_NATIVE },
        Corruption { name: "native prefix non-ascii", apply: |m, _| m.native_chain_config.account_address_prefix = "celest\u{ef}a".into(), section: S_NATIVE },
        Corruption { name: "native prefix of 84 characters", apply: |m, _| m.native_chain_config.account_address_prefix = "a".repeat(84), section: S_NATIVE },
        Corruption { name: "native prefix swapped with the protocol prefix", apply: |m, w| m.native_chain_config.account_address_prefix = if w.pp == w.np { "other".into() } else { w.pp.clone() }, section: S_NATIVE },
        Corruption { name: "validator prefix empty", apply: |m, _| m.native_chain_config.validator_address_prefix = "".into(), section: S_NATIVE },
        Corruption { name: "validator prefix mixed case", apply: |m, _| m.native_chain_config.validator_address_prefix = "celestiaValoper".into(), section: S_NATIVE },
        Corruption { name: "validator prefix swapped with the account prefix", apply: |m, w| m.native_chain_config.validator_address_prefix = w.np.clone() + "x", section: S_NATIVE },
        Corruption { name: "protocol prefix empty", apply: |m, _| m.protocol_chain_config.account_address_prefix = "".into(), section: S_PROTOCOL },
        Corruption { name: "protocol prefix mixed case", apply: |m, _| m.protocol_chain_config.account_address_prefix = "oSmo".into(), section: S_PROTOCOL },
        Corruption { name: "protocol prefix of 84 characters (no addresses in the section)", apply: |m, _| { m.protocol_chain_config.account_address_prefix = "b".repeat(84); m.protocol_chain_config.oracle_address = None; m.protocol_fee_config.treasury_address = None; m.monitors = vec![]; }, section: S_PROTOCOL },
        Corruption { name: "protocol prefix swapped with the native prefix", apply: |m, w| m.protocol_chain_config.account_address_prefix = if w.pp == w.np { "other".into() } else { w.np.clone() }, section: S_PROTOCOL },
        // addresses
        Corruption { name: "staker under the protocol prefix", apply: |m, w| m.native_chain_config.staker_address = if w.pp == w.np { addr::addr("other", 3, 20) } else { w.u1.clone() }, section: S_NATIVE },
        Corruption { name: "staker truncated by one", apply: |m, _| { let s = m.native_chain_config.staker_address.clone(); m.native_chain_config.staker_address = s[..s.len() - 1].to_string(); }, section: S_NATIVE },
        Corruption { name: "staker checksum damaged", apply: |m, _| m.native_chain_config.staker_address = flip_last(&m.native_chain_config.staker_address), section: S_NATIVE },
        Corruption { name: "staker mixed case", apply: |m, _| m.native_chain_config.staker_address = mixed(&m.native_chain_config.staker_address), section: S_NATIVE },
        Corruption { name: "staker empty", apply: |m, _| m.native_chain_config.staker_address = "".into(), section: S_NATIVE },
        Corruption { name: "collector under the validator prefix", apply: |m, w| m.native_chain_config.reward_collector_address = w.val1.clone(), section: S_NATIVE },
        Corruption { name: "collector checksum damaged", apply: |m, _| m.native_chain_config.reward_collector_address = flip_last(&m.native_chain_config.reward_collector_address), section: S_NATIVE },
        Corruption { name: "validator under the account prefix", apply: |m, w| m.native_chain_config.validators = vec![w.n1.clone()], section: S_NATIVE },
        Corruption { name: "validator listed twice", apply: |m, w| m.native_chain_config.validators = vec![w.val1.clone(), w.val2.clone(), w.val1.clone()], section: S_NATIVE },
        Corruption { name: "validator checksum damaged", apply: |m, w| m.native_chain_config.validators = vec![w.val1.clone(), flip_last(&w.val2)], section: S_NATIVE },
        Corruption { name: "oracle under the native prefix", apply: |m, w| m.protocol_chain_config.oracle_address = Some(if w.pp == w.np { addr::addr("other", 4, 32) } else { w.n1.clone() }), section: S_PROTOCOL },
        Corruption { name: "oracle checksum damaged", apply: |m, w| m.protocol_chain_config.oracle_address = Some(flip_last(&w.oracle)), section: S_PROTOCOL },
        Corruption { name: "oracle empty", apply: |m, _| m.protocol_chain_config.oracle_address = Some("".into()), section: S_PROTOCOL },
        Corruption { name: "treasury under the native prefix", apply: |m, w| m.protocol_fee_config.treasury_address = Some(if w.pp == w.np { addr::addr("other", 5, 32) } else { w.n2.clone() }), section: S_FEE },
        Corruption { name: "treasury truncated by one", apply: |m, w| m.protocol_fee_config.treasury_address = Some(w.treasury[..w.treasury.len() - 1].to_string()), section: S_FEE },
        Corruption { name: "treasury mixed case", apply: |m, w| m.protocol_fee_config.treasury_address = Some(mixed(&w.treasury)), section: S_FEE },
        Corruption { name: "monitor under the native prefix", apply: |m, w| m.monitors = vec![w.monitor.clone(), if w.pp == w.np { addr::addr("other", 6, 20) } else { w.n1.clone() }], section: S_MONITORS },
        Corruption { name: "monitor listed twice", apply: |m, w| m.monitors = vec![w.monitor.clone(), w.monitor.clone()], section: S_MONITORS },
        Corruption { name: "monitor checksum damaged", apply: |m, w| m.monitors = vec![flip_last(&w.monitor)], section: S_MONITORS },
        // channel
        Corruption { name: "channel without digits", apply: |m, _| m.protocol_chain_config.ibc_channel_id = "channel-".into(), section: S_PROTOCOL },
        Corruption { name: "channel with a letter", apply: |m, _| m.protocol_chain_config.ibc_channel_id = "channel-1a".into(), section: S_PROTOCOL },
        Corruption { name: "channel with a wrong keyword", apply: |m, _| m.protocol_chain_config.ibc_channel_id = "chanel-12".into(), section: S_PROTOCOL },
        Corruption { name: "channel with a trailing slash", apply: |m, _| m.protocol_chain_config.ibc_channel_id = "channel-12/".into(), section: S_PROTOCOL },
        Corruption { name: "channel number beyond u64", apply: |m, _| m.protocol_chain_config.ibc_channel_id = "channel-18446744073709551616".into(), section: S_PROTOCOL },
        Corruption { name: "channel empty", apply: |m, _| m.protocol_chain_config.ibc_channel_id = "".into(), section: S_PROTOCOL },
        // denoms
        Corruption { name: "staked-asset denom with 63 characters", apply: |m, _| m.protocol_chain_config.ibc_token_denom = format!("ibc/{}", "C".repeat(63)), section: S_PROTOCOL },
        Corruption { name: "staked-asset denom with 65 characters", apply: |m, _| m.protocol_chain_config.ibc_token_denom = format!("ibc/{}", "C".repeat(65)), section: S_PROTOCOL },
        Corruption { name: "staked-asset denom without ibc/", apply: |m, _| m.protocol_chain_config.ibc_token_denom = "C".repeat(68), section: S_PROTOCOL },
        Corruption { name: "staked-asset denom with upper-case IBC/", apply: |m, _| m.protocol_chain_config.ibc_token_denom = format!("IBC/{}", "C".repeat(64)), section: S_PROTOCOL },
        Corruption { name: "native token denom with a digit", apply: |m, _| m.native_chain_config.token_denom = "uti4".into(), section: S_NATIVE },
        Corruption { name: "native token denom too short", apply: |m, _| m.native_chain_config.token_denom = "uti".into(), section: S_NATIVE },
        Corruption { name: "LST sub-denom with a digit", apply: |m, _| m.liquid_stake_token_denom = "umilk7IA".into(), section: 0 },
        Corruption { name: "LST sub-denom with a slash", apply: |m, _| m.liquid_stake_token_denom = "umilk/TIA".into(), section: 0 },
        Corruption { name: "LST sub-denom too short", apply: |m, _| m.liquid_stake_token_denom = "abc".into(), section: 0 },
        Corruption { name: "LST sub-denom with a leading space", apply: |m, _| m.liquid_stake_token_denom = " umilkTIA".into(), section: 0 },
        Corruption { name: "LST sub-denom with a trailing newline", apply: |m, _| m.liquid_stake_token_denom = "umilkTIA\n".into(), section: 0 },
        Corruption { name: "LST sub-denom with a trailing tab", apply: |m, _| m.liquid_stake_token_denom = "umilkTIA\t".into(), section: 0 },
        Corruption { name: "LST sub-denom with an inner space", apply: |m, _| m.liquid_stake_token_denom = "umilk TIA".into(), section: 0 },
        Corruption { name: "LST sub-denom with a non-ASCII letter", apply: |m, _| m.liquid_stake_token_denom = "umilkT\u{ef}A".into(), section: 0 },
        Corruption { name: "LST sub-denom with a dash", apply: |m, _| m.liquid_stake_token_denom = "umilk-TIA".into(), section: 0 },
        Corruption { name: "LST sub-denom of three letters padded with a space", apply: |m, _| m.liquid_stake_token_denom = "abc ".into(), section: 0 },
        Corruption { name: "native token denom with a leading space", apply: |m, _| m.native_chain_config.token_denom = " utia".into(), section: S_NATIVE },
        Corruption { name: "native token denom with a trailing newline", apply: |m, _| m.native_chain_config.token_denom = "utia\n".into(), section: S_NATIVE },
        Corruption { name: "native token denom with a non-ASCII letter", apply: |m, _| m.native_chain_config.token_denom = "uti\u{e4}".into(), section: S_NATIVE },
        Corruption { name: "staked-asset denom padded with a space", apply: |m, _| m.protocol_chain_config.ibc_token_denom = format!(" ibc/{}", "C".repeat(64)), section: S_PROTOCOL },
        Corruption { name: "staked-asset denom of 68 bytes with a two-byte character across byte 4", apply: |m, _| m.protocol_chain_config.ibc_token_denom = format!("ibc\u{e9}{}", "C".repeat(63)), section: S_PROTOCOL },
        Corruption { name: "staked-asset denom of 68 bytes with a four-byte character across byte 4", apply: |m, _| m.protocol_chain_config.ibc_token_denom = format!("ib\u{1F600}{}", "C".repeat(62)), section: S_PROTOCOL },
        Corruption { name: "channel with a two-byte character across byte 8", apply: |m, _| m.protocol_chain_config.ibc_channel_id = "channel\u{e9}1".into(), section: S_PROTOCOL },
        Corruption { name: "channel with a multi-byte digit", apply: |m, _| m.protocol_chain_config.ibc_channel_id = "channel-\u{ff11}\u{ff12}".into(), section: S_PROTOCOL },
        Corruption { name: "LST sub-denom with a two-byte character across byte 3", apply: |m, _| m.liquid_stake_token_denom = "um\u{e9}lkTIA".into(), section: 0 },
        Corruption { name: "native token denom of three letters and a two-byte character", apply: |m, _| m.native_chain_config.token_denom = "uti\u{e9}".into(), section: S_NATIVE },
        Corruption { name: "native prefix with a four-byte character", apply: |m, _| m.native_chain_config.account_address_prefix = "cel\u{1F600}".into(), section: S_NATIVE },
        Corruption { name: "protocol prefix with a two-byte character", apply: |m, _| m.protocol_chain_config.account_address_prefix = "osm\u{f6}".into(), section: S_PROTOCOL },
        Corruption { name: "staker with a two-byte character after the prefix", apply: |m, w| m.native_chain_config.staker_address = format!("{}\u{e9}{}", w.np, &w.staker[w.np.len() + 1..]), section: S_NATIVE },
        Corruption { name: "staker with a multi-byte character across the end of the prefix", apply: |m, w| m.native_chain_config.staker_address = format!("{}\u{1F600}{}", &w.np[..w.np.len() - 1], &w.staker[w.np.len() + 3..]), section: S_NATIVE },
        Corruption { name: "treasury with a two-byte last character", apply: |m, w| m.protocol_fee_config.treasury_address = Some(format!("{}\u{e9}", &w.treasury[..w.treasury.len() - 2])), section: S_FEE },
        Corruption { name: "monitor made of multi-byte characters only", apply: |m, _| m.monitors = vec!["\u{1F600}".repeat(11)], section: S_MONITORS },
        Corruption { name: "validator with a two-byte character across the end of the validator prefix", apply: |m, w| m.native_chain_config.validators = vec![format!("{}\u{e9}{}", &w.vp[..w.vp.len() - 1], &w.val1[w.vp.len() + 1..])], section: S_NATIVE },
        // bech32 splits at the LAST '1', and a prefix may itself contain '1': addresses that are checksum-valid under `<prefix>1x` start with `<prefix>1` textually
        Corruption { name: "staker under the longer prefix <native>1x", apply: |m, w| m.native_chain_config.staker_address = addr::addr(&format!("{}1x", w.np), 11, 20), section: S_NATIVE },
        Corruption { name: "collector under the longer prefix <native>1", apply: |m, w| m.native_chain_config.reward_collector_address = addr::addr(&format!("{}1", w.np), 12, 20), section: S_NATIVE },
        Corruption { name: "validator under the longer prefix <valoper>1x", apply: |m, w| m.native_chain_config.validators = vec![w.val1.clone(), addr::addr(&format!("{}1x", w.vp), 13, 20)], section: S_NATIVE },
        Corruption { name: "oracle under the longer prefix <protocol>1hub", apply: |m, w| m.protocol_chain_config.oracle_address = Some(addr::addr(&format!("{}1hub", w.pp), 14, 32)), section: S_PROTOCOL },
        Corruption { name: "treasury under the longer prefix <protocol>1x", apply: |m, w| m.protocol_fee_config.treasury_address = Some(addr::addr(&format!("{}1x", w.pp), 15, 32)), section: S_FEE },
        Corruption { name: "monitor under the longer prefix <protocol>1x", apply: |m, w| m.monitors = vec![w.monitor.clone(), addr::addr(&format!("{}1x", w.pp), 16, 20)], section: S_MONITORS },
        Corruption { name: "staker under a shorter prefix (native prefix minus its last letter)", apply: |m, w| m.native_chain_config.staker_address = addr::addr(&w.np[..w.np.len() - 1], 17, 20), section: S_NATIVE },
        Corruption { name: "LST sub-denom empty", apply: |m, _| m.liquid_stake_token_denom = "".into(), section: 0 },
    ]
}

fn instantiate_with(f: &Filter, msg: InstantiateMsg, who: &Who) -> (Chain, bool) {
    let mut chain = Chain::new(who.clone());
    let sub = msg.liquid_stake_token_denom.clone();
    let r = chain.tx("instantiate", &who.admin.clone(), &[], |d, e, i| staking::contract::instantiate(d, e, i, msg));
    let ok = r.is_ok();
    if ok {
        // C19: whatever sub-denom the contract accepts, the denom it creates is the one it will mint, burn and report
        let cfg = staking::state::CONFIG.load(&chain.deps.storage).unwrap();
        let created: Vec<&(String, String)> = chain.w.created.iter().filter(|(s, _)| *s == who.contract).collect();
        claim(f, "C19:instantiation creates exactly one denom, for the configured sub-denom, verbatim", created.len() == 1 && created[0].1 == sub);
        claim(f, "C19:the stored LST denom is factory/<contract>/<created sub-denom>", created.len() == 1 && cfg.liquid_stake_token_denom == format!("factory/{}/{}", who.contract, created[0].1));
        claim(f, "C14:an accepted LST sub-denom is alphabetic and longer than three characters", sub.len() > 3 && sub.chars().all(|c| c.is_ascii_alphabetic()));
        let nd = &cfg.native_chain_config.token_denom;
        claim(f, "C14:an accepted native token denom is alphabetic and longer than three characters", nd.len() > 3 && nd.chars().all(|c| c.is_ascii_alphabetic()));
    }
    if let crate::world::Tx::Panic(p) = &r {
        symcore::prove(&format!("C16:no panic [{}]", crate::step::panic_key(p)), "false".into());
    }
    (chain, ok)
}

pub fn matrix_case(cfg: CfgSpec, idx: usize) -> Case {
    let cs = corruptions();
    let c = cs[idx].clone();
    Case {
        name: format!("cfgmat:{}:{}", cfg.name(), c.name),
        run: Box::new(move |f: &Filter, _mw: bool| {
            let who = Who::new(cfg.same_prefix);
            let fee = Uint128::new(symcore::var("fee_rate"));
            let min = Uint128::new(symcore::var("min_stake"));
            let good = scen::init_msg(&who, &CfgSpec { treasury: true, oracle: true, ..cfg.clone() }, fee, min);
            // instantiate
            let (_c0, ok0) = instantiate_with(f, good.clone(), &who);
            claim(f, "C14:the uncorrupted configuration is accepted at instantiation", ok0);
            let mut bad = good.clone();
            (c.apply)(&mut bad, &who);
            let (_c1, ok1) = instantiate_with(f, bad.clone(), &who);
            claim(f, &format!("C14:instantiate refuses: {}", c.name), !ok1);
            // UpdateConfig carrying the corrupted section (all other sections absent)
            if c.section != 0 {
                let (mut chain, _) = instantiate_with(f, good.clone(), &who);
                let before = dump(&chain.deps.storage);
                use crate::cfgops::{S_FEE, S_MONITORS, S_NATIVE, S_PROTOCOL};
                let mk = |m: &InstantiateMsg, also_protocol: bool| ExecuteMsg::UpdateConfig {
                    native_chain_config: if c.section == S_NATIVE { Some(m.native_chain_config.clone()) } else { None },
                    protocol_chain_config: if c.section == S_PROTOCOL || also_protocol { Some(m.protocol_chain_config.clone()) } else { None },
                    protocol_fee_config: if c.section == S_FEE || (c.section == S_PROTOCOL && m.protocol_fee_config.treasury_address.is_none()) { Some(m.protocol_fee_config.clone()) } else { None },
                    monitors: if c.section == S_MONITORS || (c.section == S_PROTOCOL && m.monitors.is_empty()) { Some(m.monitors.clone()) } else { None },
                    batch_period: None,
                };
                let r = chain.execute(&who.admin.clone(), &[], mk(&bad, false));
                if let crate::world::Tx::Panic(p) = &r {
                    symcore::prove(&format!("C16:no panic [{}]", crate::step::panic_key(p)), "false".into());
                }
                claim(f, &format!("C14:UpdateConfig refuses: {}", c.name), !r.is_ok());
                claim(f, "C14:a refused update changes nothing", dump(&chain.deps.storage) == before);
                let r2 = chain.execute(&who.admin.clone(), &[], mk(&good, false));
                claim(f, "C14:the uncorrupted section is accepted by UpdateConfig", r2.is_ok());
            }
            symcore::note("outcome=ok".into());
        }),
    }
}

/// Boundary prefixes: for every configuration the contract accepts, an account that is not the derived
/// ibc-hooks account must be refused by both Receive* handlers (C08 / C09).
pub fn hook_auth_case(len: usize) -> Case {
    Case {
        name: format!("cfgmat:hookauth:{len}"),
        run: Box::new(move |f: &Filter, _mw: bool| {
            let who = Who::new(false);
            let fee = Uint128::new(symcore::var("fee_rate"));
            let min = Uint128::new(symcore::var("min_stake"));
            let mut msg = scen::init_msg(&who, &CfgSpec { treasury: false, oracle: false, same_prefix: false, stopped: false, variant: 0 }, fee, min);
            msg.protocol_chain_config.account_address_prefix = "p".repeat(len);
            msg.monitors = vec![];
            let (mut chain, ok) = instantiate_with(f, msg, &who);
            claim(f, "C14:protocol prefixes of 1..=83 characters are accepted, longer ones refused", ok == (len >= 1 && len <= 83));
            symcore::note(format!("outcome={}", if ok { "ok" } else { "err" }));
            if !ok {
                return;
            }
            {
                let st = &mut chain.deps.storage;
                let mut cfg = staking::state::CONFIG.load(st).unwrap();
                cfg.stopped = false;
                staking::state::CONFIG.save(st, &cfg).unwrap();
                let mut state = staking::state::STATE.load(st).unwrap();
                state.total_native_token = Uint128::new(1000);
                state.total_liquid_stake_token = Uint128::new(1000);
                staking::state::STATE.save(st, &state).unwrap();
                let mut b = staking::state::BATCHES.load(st, 1).unwrap();
                b.update_status(milky_way::staking::BatchStatus::Submitted, Some(0));
                b.expected_native_unstaked = Some(Uint128::new(10));
                staking::state::BATCHES.save(st, 1, &b).unwrap();
            }
            let x = Uint128::new(symcore::var("x"));
            symcore::assume(crate::t::le(&crate::t::ut(x), crate::t::E27));
            let funds = [crate::world::coin(addr::NATIVE_DENOM, x)];
            for foreign in [who.u1.clone(), who.admin.clone(), who.hook_collector.clone()] {
                let r = chain.execute(&foreign, &funds, ExecuteMsg::ReceiveRewards {});
                claim(f, "C09:ReceiveRewards refuses an account that is not the derived ibc-hooks account, under every accepted prefix", !r.is_ok());
                let r = chain.execute(&foreign, &funds, ExecuteMsg::ReceiveUnstakedTokens { batch_id: 1 });
                claim(f, "C09:ReceiveUnstakedTokens refuses an account that is not the derived ibc-hooks account, under every accepted prefix", !r.is_ok());
            }
        }),
    }
}

/// Channel identifiers across the whole u64 range and in every spelling the validation accepts.
pub fn channel_ids() -> Vec<&'static str> {
    vec!["channel-0", "channel-7", "channel-007", "channel-+7", "channel-9", "channel-123", "channel-4294967295", "channel-4294967296", "channel-4294967303", "channel-4294967419", "channel-9223372036854775807", "channel-18446744073709551615"]
}

/// C09 over configurations: with channel `i` configured (at instantiation, or by an update from another channel) the
/// ibc-hooks accounts of the staker / collector on channel `i` (derived by the harness's own implementation, for the
/// identifier exactly as configured) are accepted and the accounts of the same native senders on every other
/// identifier of `channel_ids` are refused, by both Receive* handlers.
pub fn channel_auth_case(i: usize, via_update: bool) -> Case {
    Case {
        name: format!("cfgmat:hookauth:channel:{}:{}", channel_ids()[i], if via_update { "update" } else { "init" }),
        run: Box::new(move |f: &Filter, _mw: bool| {
            let who = Who::new(false);
            let ids = channel_ids();
            let fee = Uint128::new(symcore::var("fee_rate"));
            let min = Uint128::new(symcore::var("min_stake"));
            let mut msg = scen::init_msg(&who, &CfgSpec { treasury: false, oracle: false, same_prefix: false, stopped: false, variant: 0 }, fee, min);
            if !via_update {
                msg.protocol_chain_config.ibc_channel_id = ids[i].to_string();
            }
            msg.monitors = vec![];
            let proto = msg.protocol_chain_config.clone();
            let (mut chain, ok) = instantiate_with(f, msg, &who);
            claim(f, "C09:every `channel-<u64>` identifier is accepted by configuration validation", ok);
            if !ok {
                symcore::note("outcome=err".into());
                return;
            }
            if via_update {
                let mut p = proto.clone();
                p.ibc_channel_id = ids[i].to_string();
                let r = chain.execute(&who.admin.clone(), &[], ExecuteMsg::UpdateConfig { native_chain_config: None, protocol_chain_config: Some(p), protocol_fee_config: None, monitors: None, batch_period: None });
                claim(f, "C09:every `channel-<u64>` identifier is accepted by a configuration update", r.is_ok());
            }
            {
                let st = &mut chain.deps.storage;
                let mut cfg = staking::state::CONFIG.load(st).unwrap();
                claim(f, "C09:the stored channel is the configured identifier, verbatim", cfg.protocol_chain_config.ibc_channel_id == ids[i]);
                cfg.stopped = false;
                staking::state::CONFIG.save(st, &cfg).unwrap();
                let mut state = staking::state::STATE.load(st).unwrap();
                state.total_native_token = Uint128::new(1000);
                state.total_liquid_stake_token = Uint128::new(1000);
                staking::state::STATE.save(st, &state).unwrap();
                let mut b = staking::state::BATCHES.load(st, 1).unwrap();
                b.update_status(milky_way::staking::BatchStatus::Submitted, Some(0));
                b.expected_native_unstaked = Some(Uint128::new(10));
                staking::state::BATCHES.save(st, 1, &b).unwrap();
            }
            let x = Uint128::new(symcore::var("x"));
            symcore::assume(crate::t::le(&crate::t::ut(x), crate::t::E27));
            symcore::assume(crate::t::ge(&crate::t::ut(x), "1"));
            let funds = [crate::world::coin(addr::NATIVE_DENOM, x)];
            let unauthorized = |r: &crate::world::Tx| matches!(r, crate::world::Tx::Err(e) if e.contains("Unauthorized"));
            // every other identifier first (an accepted ReceiveUnstakedTokens consumes the batch)
            let order: Vec<usize> = (0..ids.len()).filter(|j| *j != i).chain(std::iter::once(i)).collect();
            for j in order {
                let hs = addr::hook_sender(ids[j], &who.staker, &who.pp);
                let hc = addr::hook_sender(ids[j], &who.collector, &who.pp);
                let rr = chain.execute(&hc, &funds, ExecuteMsg::ReceiveRewards {});
                let ru = chain.execute(&hs, &funds, ExecuteMsg::ReceiveUnstakedTokens { batch_id: 1 });
                for r in [&rr, &ru] {
                    if let crate::world::Tx::Panic(p) = r {
                        symcore::prove(&format!("C16:no panic [{}]", crate::step::panic_key(p)), "false".into());
                    }
                }
                if j == i {
                    claim(f, "C09:ReceiveRewards accepts the collector's ibc-hooks account of the configured channel", !unauthorized(&rr) && !matches!(rr, crate::world::Tx::Panic(_)));
                    claim(f, "C09:ReceiveUnstakedTokens accepts the staker's ibc-hooks account of the configured channel", !unauthorized(&ru) && !matches!(ru, crate::world::Tx::Panic(_)));
                } else {
                    claim(f, "C09:ReceiveRewards refuses the collector's account derived for any other channel identifier", unauthorized(&rr));
                    claim(f, "C09:ReceiveUnstakedTokens refuses the staker's account derived for any other channel identifier", unauthorized(&ru));
                }
                // crossed roles are refused as well
                let cross = chain.execute(&hs, &funds, ExecuteMsg::ReceiveRewards {});
                claim(f, "C09:ReceiveRewards refuses the staker's ibc-hooks account", unauthorized(&cross));
            }
            symcore::note("outcome=ok".into());
        }),
    }
}

/// C14 validator set: for every order in which three validators can be stored (at instantiation or by an update of the
/// native section), AddValidator refuses each listed validator and accepts a new one, RemoveValidator removes exactly a
/// listed one and refuses an unknown one; the list never holds a validator twice and nothing else in storage moves.
pub fn valset_case(perm: usize, via_update: bool) -> Case {
    Case {
        name: format!("cfgmat:valset:{perm}:{}", if via_update { "update" } else { "init" }),
        run: Box::new(move |f: &Filter, _mw: bool| {
            let who = Who::new(false);
            let fee = Uint128::new(symcore::var("fee_rate"));
            let min = Uint128::new(symcore::var("min_stake"));
            let vals = [who.val1.clone(), who.val2.clone(), who.val3.clone()];
            let fresh = addr::addr(&who.vp, 53, 20);
            let perms = [[0, 1, 2], [0, 2, 1], [1, 0, 2], [1, 2, 0], [2, 0, 1], [2, 1, 0]];
            let order: Vec<String> = perms[perm].iter().map(|i| vals[*i].clone()).collect();
            let mut msg = scen::init_msg(&who, &CfgSpec { treasury: false, oracle: false, same_prefix: false, stopped: false, variant: 0 }, fee, min);
            let native = msg.native_chain_config.clone();
            if !via_update {
                msg.native_chain_config.validators = order.clone();
            }
            let (mut chain, ok) = instantiate_with(f, msg, &who);
            claim(f, "C14:the uncorrupted configuration is accepted at instantiation", ok);
            if !ok {
                symcore::note("outcome=err".into());
                return;
            }
            if via_update {
                let mut n = native.clone();
                n.validators = order.clone();
                let r = chain.execute(&who.admin.clone(), &[], ExecuteMsg::UpdateConfig { native_chain_config: Some(n), protocol_chain_config: None, protocol_fee_config: None, monitors: None, batch_period: None });
                claim(f, "C14:a well-formed native section is accepted from the admin", r.is_ok());
            }
            let listed = |chain: &Chain| -> Vec<String> { staking::state::CONFIG.load(&chain.deps.storage).unwrap().native_chain_config.validators.iter().map(|a| a.to_string()).collect() };
            let sorted = |mut v: Vec<String>| {
                v.sort();
                v
            };
            claim(f, "C14:the stored validator set is the configured one", sorted(listed(&chain)) == sorted(order.clone()));
            for v in &order {
                let before = crate::world::dump(&chain.deps.storage);
                let r = chain.execute(&who.admin.clone(), &[], ExecuteMsg::AddValidator { new_validator: v.clone() });
                claim(f, "C14:AddValidator refuses every validator that is already listed, whatever the stored order", !r.is_ok());
                claim(f, "C14:a refused AddValidator changes nothing", crate::world::dump(&chain.deps.storage) == before);
            }
            let before = crate::world::dump(&chain.deps.storage);
            let r = chain.execute(&who.admin.clone(), &[], ExecuteMsg::RemoveValidator { validator: fresh.clone() });
            claim(f, "C14:RemoveValidator refuses a validator that is not listed", !r.is_ok() && crate::world::dump(&chain.deps.storage) == before);
            let r = chain.execute(&who.admin.clone(), &[], ExecuteMsg::AddValidator { new_validator: fresh.clone() });
            claim(f, "C14:AddValidator accepts a new, well-prefixed validator", r.is_ok());
            let mut want = order.clone();
            want.push(fresh.clone());
            claim(f, "C14:add changes exactly the named validator", sorted(listed(&chain)) == sorted(want.clone()));
            let r = chain.execute(&who.admin.clone(), &[], ExecuteMsg::AddValidator { new_validator: fresh.clone() });
            claim(f, "C14:AddValidator refuses every validator that is already listed, whatever the stored order", !r.is_ok());
            // remove them one by one, in the stored order rotated by the permutation index
            let mut rest = want.clone();
            for k in 0..want.len() {
                let v = want[(k + perm) % want.len()].clone();
                let r = chain.execute(&who.admin.clone(), &[], ExecuteMsg::RemoveValidator { validator: v.clone() });
                claim(f, "C14:RemoveValidator accepts a listed validator", r.is_ok());
                rest.retain(|x| *x != v);
                claim(f, "C14:remove changes exactly the named validator", sorted(listed(&chain)) == sorted(rest.clone()));
                let l = listed(&chain);
                claim(f, "C14:no validator is ever listed twice", sorted(l.clone()).windows(2).all(|w| w[0] != w[1]));
                let r = chain.execute(&who.admin.clone(), &[], ExecuteMsg::RemoveValidator { validator: v.clone() });
                claim(f, "C14:RemoveValidator refuses a validator that is not listed", !r.is_ok());
            }
            symcore::note("outcome=ok".into());
        }),
    }
}

/// C09 over spellings: bech32 allows an all-upper-case spelling, which configuration validation accepts and stores
/// verbatim; ibc-hooks hashes the packet's sender string as it is, so the accepted account is the one derived from the
/// configured spelling and the account of the other spelling is a different (refused) one.
pub fn spelling_case(upper_staker: bool, upper_collector: bool, via_update: bool) -> Case {
    Case {
        name: format!("cfgmat:hookauth:spelling:{}{}:{}", if upper_staker { "S" } else { "s" }, if upper_collector { "C" } else { "c" }, if via_update { "update" } else { "init" }),
        run: Box::new(move |f: &Filter, _mw: bool| {
            let who = Who::new(false);
            let fee = Uint128::new(symcore::var("fee_rate"));
            let min = Uint128::new(symcore::var("min_stake"));
            let mut msg = scen::init_msg(&who, &CfgSpec { treasury: false, oracle: false, same_prefix: false, stopped: false, variant: 0 }, fee, min);
            msg.monitors = vec![];
            let staker_cfg = if upper_staker { who.staker.to_uppercase() } else { who.staker.clone() };
            let collector_cfg = if upper_collector { who.collector.to_uppercase() } else { who.collector.clone() };
            let mut native = msg.native_chain_config.clone();
            native.staker_address = staker_cfg.clone();
            native.reward_collector_address = collector_cfg.clone();
            if !via_update {
                msg.native_chain_config = native.clone();
            }
            let (mut chain, ok) = instantiate_with(f, msg, &who);
            claim(f, "C09:an all-upper-case bech32 spelling of a native address is accepted by configuration validation", ok);
            if !ok {
                symcore::note("outcome=err".into());
                return;
            }
            if via_update {
                let r = chain.execute(&who.admin.clone(), &[], ExecuteMsg::UpdateConfig { native_chain_config: Some(native), protocol_chain_config: None, protocol_fee_config: None, monitors: None, batch_period: None });
                claim(f, "C09:an all-upper-case bech32 spelling of a native address is accepted by a configuration update", r.is_ok());
            }
            {
                let st = &mut chain.deps.storage;
                let mut cfg = staking::state::CONFIG.load(st).unwrap();
                claim(f, "C09:native addresses are stored in the configured spelling, verbatim", cfg.native_chain_config.staker_address.as_str() == staker_cfg && cfg.native_chain_config.reward_collector_address.as_str() == collector_cfg);
                cfg.stopped = false;
                staking::state::CONFIG.save(st, &cfg).unwrap();
                let mut state = staking::state::STATE.load(st).unwrap();
                state.total_native_token = Uint128::new(1000);
                state.total_liquid_stake_token = Uint128::new(1000);
                staking::state::STATE.save(st, &state).unwrap();
                let mut b = staking::state::BATCHES.load(st, 1).unwrap();
                b.update_status(milky_way::staking::BatchStatus::Submitted, Some(0));
                b.expected_native_unstaked = Some(Uint128::new(10));
                staking::state::BATCHES.save(st, 1, &b).unwrap();
            }
            let x = Uint128::new(symcore::var("x"));
            symcore::assume(crate::t::le(&crate::t::ut(x), crate::t::E27));
            symcore::assume(crate::t::ge(&crate::t::ut(x), "1"));
            let funds = [crate::world::coin(addr::NATIVE_DENOM, x)];
            let unauthorized = |r: &crate::world::Tx| matches!(r, crate::world::Tx::Err(e) if e.contains("Unauthorized"));
            let other = |cfgd: &str, base: &str| if cfgd == base { base.to_uppercase() } else { base.to_string() };
            // the other spelling first (an accepted ReceiveUnstakedTokens consumes the batch)
            let hc_other = addr::hook_sender(addr::CHANNEL, &other(&collector_cfg, &who.collector), &who.pp);
            let hs_other = addr::hook_sender(addr::CHANNEL, &other(&staker_cfg, &who.staker), &who.pp);
            let r = chain.execute(&hc_other, &funds, ExecuteMsg::ReceiveRewards {});
            claim(f, "C09:ReceiveRewards refuses the ibc-hooks account of the collector's other spelling", unauthorized(&r));
            let r = chain.execute(&hs_other, &funds, ExecuteMsg::ReceiveUnstakedTokens { batch_id: 1 });
            claim(f, "C09:ReceiveUnstakedTokens refuses the ibc-hooks account of the staker's other spelling", unauthorized(&r));
            let hc = addr::hook_sender(addr::CHANNEL, &collector_cfg, &who.pp);
            let hs = addr::hook_sender(addr::CHANNEL, &staker_cfg, &who.pp);
            let r = chain.execute(&hc, &funds, ExecuteMsg::ReceiveRewards {});
            claim(f, "C09:ReceiveRewards accepts the ibc-hooks account of the collector as configured (spelling verbatim)", !unauthorized(&r) && !matches!(r, crate::world::Tx::Panic(_)));
            let r = chain.execute(&hs, &funds, ExecuteMsg::ReceiveUnstakedTokens { batch_id: 1 });
            claim(f, "C09:ReceiveUnstakedTokens accepts the ibc-hooks account of the staker as configured (spelling verbatim)", !unauthorized(&r) && !matches!(r, crate::world::Tx::Panic(_)));
            symcore::note("outcome=ok".into());
        }),
    }
}

pub fn cases(tier: &str) -> Vec<Case> {
    let mut v = vec![];
    let cfgs = if tier == "thorough" { vec![CfgSpec::base(), CfgSpec { same_prefix: true, ..CfgSpec::base() }] } else { vec![CfgSpec::base(), CfgSpec { same_prefix: true, ..CfgSpec::base() }] };
    for cfg in cfgs {
        for i in 0..corruptions().len() {
            v.push(matrix_case(cfg.clone(), i));
        }
    }
    for len in [1usize, 2, 40, 82, 83, 84, 85, 200] {
        v.push(hook_auth_case(len));
    }
    for perm in 0..6 {
        v.push(valset_case(perm, false));
        v.push(valset_case(perm, true));
    }
    for us in [false, true] {
        for uc in [false, true] {
            v.push(spelling_case(us, uc, false));
            v.push(spelling_case(us, uc, true));
        }
    }
    for i in 0..channel_ids().len() {
        v.push(channel_auth_case(i, false));
        v.push(channel_auth_case(i, true));
    }
    v
}
