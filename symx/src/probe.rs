//! Concrete replays of engine M's solver models on the real build (native binary).
//! The inputs come from the model, the expected behaviour is computed here from the property text,
//! the real entry points are executed; `reproduced = true` iff the real code deviates.
#![allow(dead_code)]
use crate::addr::{self, Who};
use crate::scen::{self, CfgSpec};
use cosmwasm_std::testing::{mock_env, MockApi, MockQuerier, MockStorage};
use cosmwasm_std::{coin, Addr, Env, MessageInfo, OwnedDeps, Timestamp, Uint128};
use milky_way::staking::{Batch, BatchStatus};
use serde_json::{json, Value};
use std::collections::HashMap;

fn geti(m: &HashMap<String, String>, k: &str, default: i128) -> i128 {
    m.get(k).and_then(|s| s.parse::<i128>().ok()).unwrap_or(default)
}

fn env_at(secs: u64, contract: &str) -> Env {
    let mut e = mock_env();
    e.block.time = Timestamp::from_seconds(secs);
    e.contract.address = Addr::unchecked(contract);
    e
}

fn principal(who: &Who, table: &mut Vec<(i128, String)>, v: i128) -> String {
    if let Some((_, a)) = table.iter().find(|(k, _)| *k == v) {
        return a.clone();
    }
    let pool = [who.admin.clone(), who.nominee.clone(), who.u1.clone(), who.u2.clone(), who.u3.clone(), who.ex_admin.clone(), who.monitor.clone(), who.c32.clone()];
    let a = pool[table.len() % pool.len()].clone();
    table.push((v, a.clone()));
    a
}

/// C12: replays a history (op_i, snd_i, arg_i, now_i), i < k, on staking or treasury and checks the
/// handover property on the real storage after every step.
pub fn own_history(contract: &str, m: &HashMap<String, String>) -> Value {
    let who = Who::new(false);
    let k = (0..64).take_while(|i| m.contains_key(&format!("op{i}"))).count();
    let mut table: Vec<(i128, String)> = vec![];
    // adm0 is the instantiating admin
    let adm0 = geti(m, "adm0", 0);
    let admin0 = principal(&who, &mut table, adm0);
    let mut deps: OwnedDeps<MockStorage, MockApi, MockQuerier> = cosmwasm_std::testing::mock_dependencies();
    let t0 = geti(m, "now0", 1000).max(0) as u64;
    let info = |s: &str| MessageInfo { sender: Addr::unchecked(s), funds: vec![] };
    if contract == "treasury" {
        let msg = treasury::msg::InstantiateMsg { admin: None, trader: None, allowed_swap_routes: vec![] };
        treasury::contract::instantiate(deps.as_mut(), env_at(t0, &who.contract), info(&admin0), msg).expect("instantiate");
    } else {
        let msg = scen::init_msg(&who, &CfgSpec::base(), Uint128::new(1000), Uint128::new(100));
        staking::contract::instantiate(deps.as_mut(), env_at(t0, &who.contract), info(&admin0), msg).expect("instantiate");
    }
    // optional arbitrary pre-state (one-step models): pd0/pe0/md0/mi0
    let read_admin = |deps: &OwnedDeps<MockStorage, MockApi, MockQuerier>| -> Option<String> {
        if contract == "treasury" {
            treasury::state::ADMIN.get(deps.as_ref()).unwrap().map(|a| a.to_string())
        } else {
            staking::state::ADMIN.get(deps.as_ref()).unwrap().map(|a| a.to_string())
        }
    };
    if m.contains_key("pd0") && (geti(m, "pd0", 0) != 0 || geti(m, "md0", 0) != 0) {
        let po = if geti(m, "pd0", 0) == 1 { Some(Addr::unchecked(principal(&who, &mut table, geti(m, "pe0", 77)))) } else { None };
        let mt = if geti(m, "md0", 0) == 1 { Some(Timestamp::from_seconds(geti(m, "mi0", 0).max(0) as u64)) } else { None };
        if contract == "treasury" {
            let mut s = treasury::state::STATE.load(&deps.storage).unwrap();
            s.pending_owner = po;
            s.owner_transfer_min_time = mt;
            treasury::state::STATE.save(&mut deps.storage, &s).unwrap();
        } else {
            let mut s = staking::state::STATE.load(&deps.storage).unwrap();
            s.pending_owner = po;
            s.owner_transfer_min_time = mt;
            staking::state::STATE.save(&mut deps.storage, &s).unwrap();
        }
    }
    let mut trace = vec![];
    // ghost: most recent successful nomination (nominee, time, by)
    // ghost: (nominee, earliest acceptance time) of the most recent un-revoked nomination
    let mut nomination: Option<(String, u64)> = None;
    if m.contains_key("pd0") && geti(m, "pd0", 0) == 1 {
        let lock = geti(m, "mi0", 0).max(0) as u64;
        let nominee = principal(&who, &mut table, geti(m, "pe0", 77));
        nomination = Some((nominee, if geti(m, "md0", 0) == 1 { lock } else { 0 }));
    }
    let mut reproduced = false;
    let mut why = String::new();
    let mut prev_t = 0u64;
    for i in 0..k {
        let op = geti(m, &format!("op{i}"), 0);
        let snd = principal(&who, &mut table, geti(m, &format!("snd{i}"), 0));
        let arg = principal(&who, &mut table, geti(m, &format!("arg{i}"), 1));
        let now = (geti(m, &format!("now{i}"), 1000).max(0) as u64).max(prev_t);
        prev_t = now;
        let admin_before = read_admin(&deps);
        let env = env_at(now, &who.contract);
        let res: Result<(), String> = if contract == "treasury" {
            use treasury::msg::ExecuteMsg as E;
            let msg = match op {
                0 => E::TransferOwnership { new_owner: arg.clone() },
                1 => E::RevokeOwnershipTransfer {},
                _ => E::AcceptOwnership {},
            };
            symcore::catch(|| treasury::contract::execute(deps.as_mut(), env, info(&snd), msg)).map_err(|p| format!("PANIC {p}")).and_then(|r| r.map(|_| ()).map_err(|e| e.to_string()))
        } else {
            use staking::msg::ExecuteMsg as E;
            let msg = match op {
                0 => E::TransferOwnership { new_owner: arg.clone() },
                1 => E::RevokeOwnershipTransfer {},
                _ => E::AcceptOwnership {},
            };
            symcore::catch(|| staking::contract::execute(deps.as_mut(), env, info(&snd), msg)).map_err(|p| format!("PANIC {p}")).and_then(|r| r.map(|_| ()).map_err(|e| e.to_string()))
        };
        let admin_after = read_admin(&deps);
        trace.push(format!("t={now} op={op} by={} arg={} -> {:?}; admin {} -> {}", who.name_of(&snd), who.name_of(&arg), res, admin_before.clone().map(|a| who.name_of(&a)).unwrap_or_default(), admin_after.clone().map(|a| who.name_of(&a)).unwrap_or_default()));
        // expected behaviour from the property text
        let is_admin = admin_before.as_deref() == Some(snd.as_str());
        let expect_ok = match op {
            0 | 1 => is_admin,
            _ => nomination.as_ref().map(|(n, t)| *n == snd && now >= *t).unwrap_or(false),
        };
        if let Err(e) = &res {
            if e.starts_with("PANIC") {
                reproduced = true;
                why = format!("step {i}: {e}");
                break;
            }
        }
        if res.is_ok() != expect_ok {
            reproduced = true;
            why = format!("step {i}: expected {} but the contract answered {:?}", if expect_ok { "success" } else { "an error" }, res);
            break;
        }
        if res.is_ok() {
            match op {
                0 => {
                    nomination = Some((arg.clone(), now + 604800));
                    let (po, mt) = if contract == "treasury" {
                        let s = treasury::state::STATE.load(&deps.storage).unwrap();
                        (s.pending_owner.map(|a| a.to_string()), s.owner_transfer_min_time.map(|t| t.seconds()))
                    } else {
                        let s = staking::state::STATE.load(&deps.storage).unwrap();
                        (s.pending_owner.map(|a| a.to_string()), s.owner_transfer_min_time.map(|t| t.seconds()))
                    };
                    if po.as_deref() != Some(arg.as_str()) || mt != Some(now + 604800) {
                        reproduced = true;
                        why = format!("step {i}: nomination stored pending_owner={po:?} lock={mt:?}, expected {arg} and {}", now + 604800);
                        break;
                    }
                }
                1 => nomination = None,
                _ => {
                    if admin_after.as_deref() != Some(snd.as_str()) {
                        reproduced = true;
                        why = format!("step {i}: accepted but the admin is not the accepting account");
                        break;
                    }
                    nomination = None;
                }
            }
        }
        if op != 2 || res.is_err() {
            if admin_after != admin_before {
                reproduced = true;
                why = format!("step {i}: the admin changed without a successful acceptance");
                break;
            }
        }
    }
    json!({"reproduced": reproduced, "why": why, "trace": trace})
}

/// C06 / C16: one SubmitBatch or ReceiveUnstakedTokens with every u64 input taken from the model.
pub fn time_step(which: &str, m: &HashMap<String, String>) -> Value {
    let who = Who::new(false);
    let now = geti(m, "env.0.1", 1_000_000).max(0) as u64;
    let mut chain = scen::instantiate(&CfgSpec::base(), Uint128::new(1000), Uint128::new(1));
    chain.set_time(now);
    let bid = geti(m, "pre:u64, Batch.0", 1).max(1) as u64;
    let next_d = geti(m, "pre:u64, Batch.6#d", 1);
    let next = geti(m, "pre:u64, Batch.6.Some.0", 0).max(0) as u64;
    let status = geti(m, "pre:u64, Batch.7#d", if which == "submit" { 0 } else { 1 });
    let stopped = geti(m, "pre:Config.6", 0) != 0;
    let bp = geti(m, "pre:Config.5", 86400).max(0) as u64;
    let unb = geti(m, "pre:Config.0.4", 1209600).max(0) as u64;
    let missing = geti(m, "pre:u64, Batch#missing", 0) != 0;
    {
        let st = &mut chain.deps.storage;
        let mut cfg = staking::state::CONFIG.load(st).unwrap();
        cfg.stopped = stopped;
        cfg.batch_period = bp;
        cfg.native_chain_config.unbonding_period = unb;
        staking::state::CONFIG.save(st, &cfg).unwrap();
        let mut state = staking::state::STATE.load(st).unwrap();
        state.total_native_token = Uint128::new(1000);
        state.total_liquid_stake_token = Uint128::new(1000);
        staking::state::STATE.save(st, &state).unwrap();
        staking::state::BATCHES.remove(st, 1);
        if !missing {
            let mut b = Batch::new(bid, Uint128::new(100), next);
            b.next_batch_action_time = if next_d == 1 { Some(next) } else { None };
            b.status = match status {
                0 => BatchStatus::Pending,
                1 => BatchStatus::Submitted,
                _ => BatchStatus::Received,
            };
            if status >= 1 {
                b.expected_native_unstaked = Some(Uint128::new(100));
            }
            b.unstake_requests_count = Some(1);
            staking::state::BATCHES.save(st, bid, &b).unwrap();
            staking::state::unstake_requests().save(st, (bid, who.u1.clone()), &staking::state::UnstakeRequest { batch_id: bid, user: who.u1.clone(), amount: Uint128::new(100) }).unwrap();
        }
        staking::state::PENDING_BATCH_ID.save(st, &bid).unwrap();
    }
    let lst = who.lst_denom();
    chain.set_bal(&who.contract, &lst, "100".into());
    chain.w.supply.insert(lst.clone(), "1000".into());
    let (res, expect_ok, extra) = if which == "submit" {
        let r = chain.execute(&who.u2.clone(), &[], staking::msg::ExecuteMsg::SubmitBatch {});
        let expect = !stopped && !missing && next_d == 1 && now >= next && now.checked_add(bp).is_some() && now.checked_add(unb).is_some();
        let mut extra = String::new();
        if r.is_ok() {
            let nb = staking::state::BATCHES.load(&chain.deps.storage, bid + 1).ok();
            let sb = staking::state::BATCHES.load(&chain.deps.storage, bid).ok();
            let good = nb.as_ref().map(|b| b.next_batch_action_time == Some(now + bp) && b.status == BatchStatus::Pending).unwrap_or(false)
                && sb.as_ref().map(|b| b.next_batch_action_time == Some(now + unb) && b.status == BatchStatus::Submitted).unwrap_or(false)
                && staking::state::PENDING_BATCH_ID.load(&chain.deps.storage).ok() == Some(bid + 1);
            if !good {
                extra = format!("deadlines/ids after submit are wrong: new={nb:?} submitted={sb:?}");
            }
        }
        (r, expect, extra)
    } else {
        let funds = [coin(50, addr::NATIVE_DENOM)];
        let r = chain.execute(&who.hook_staker.clone(), &funds, staking::msg::ExecuteMsg::ReceiveUnstakedTokens { batch_id: bid });
        let expect = !stopped && !missing && status == 1 && next_d == 1 && now >= next;
        let mut extra = String::new();
        if r.is_ok() {
            let sb = staking::state::BATCHES.load(&chain.deps.storage, bid).ok();
            if !sb.as_ref().map(|b| b.status == BatchStatus::Received && b.next_batch_action_time.is_none() && b.received_native_unstaked == Some(Uint128::new(50)) && b.expected_native_unstaked == Some(Uint128::new(100))).unwrap_or(false) {
                extra = format!("batch after receipt is wrong: {sb:?}");
            }
        }
        (r, expect, extra)
    };
    let panicked = matches!(res, crate::world::Tx::Panic(_));
    let reproduced = panicked || res.is_ok() != expect_ok || !extra.is_empty();
    json!({"reproduced": reproduced, "outcome": res.detail(), "expected_ok": expect_ok, "extra": extra,
           "inputs": {"now": now, "next": next, "next_present": next_d, "status": status, "stopped": stopped, "batch_period": bp, "unbonding_period": unb, "missing": missing}})
}

/// C16: instantiate with the model's batch period and block time.
pub fn instantiate_period(m: &HashMap<String, String>) -> Value {
    let who = Who::new(false);
    let now = geti(m, "env.0.1", 1_000_000).max(0) as u64;
    let bp = geti(m, "msg.4", 86400).max(0) as u64;
    let mut chain = crate::world::Chain::new(who.clone());
    chain.set_time(now);
    let mut msg = scen::init_msg(&who, &CfgSpec::base(), Uint128::new(1000), Uint128::new(1));
    msg.batch_period = bp;
    let r = chain.tx("instantiate", &who.admin.clone(), &[], |d, e, i| staking::contract::instantiate(d, e, i, msg));
    let panicked = matches!(r, crate::world::Tx::Panic(_));
    json!({"reproduced": panicked, "outcome": r.detail(), "inputs": {"now": now, "batch_period": bp}})
}

/// C09: the real derivation against the harness's own composition (written from the ibc-hooks specification).
pub fn derive(m: &HashMap<String, String>) -> Value {
    let channel = m.get("channel").cloned().unwrap_or_else(|| "channel-123".into());
    let who = Who::new(false);
    let sender = m.get("sender").cloned().unwrap_or_else(|| who.staker.clone());
    let prefix = m.get("prefix").cloned().filter(|p| !p.is_empty()).unwrap_or_else(|| "osmo".into());
    let real = staking::helpers::derive_intermediate_sender(&channel, &sender, &prefix);
    let spec = std::panic::catch_unwind(|| addr::hook_sender(&channel, &sender, &prefix)).ok();
    let reproduced = match (&real, &spec) {
        (Ok(a), Some(b)) => a != b,
        (Err(_), Some(_)) => true,
        _ => false,
    };
    json!({"reproduced": reproduced, "real": format!("{real:?}"), "spec": spec, "inputs": {"channel": channel, "sender": sender, "prefix": prefix}})
}

/// C17: the model's store (keys, decode errors, filter verdicts), cursor and limit against the real `Batches` query.
pub fn paginate(m: &HashMap<String, String>) -> Value {
    let list = |k: &str| -> Vec<u64> { m.get(k).and_then(|s| serde_json::from_str::<Vec<i128>>(s).ok()).unwrap_or_default().into_iter().map(|x| x.max(0) as u64).collect() };
    let keys = list("keys");
    let err = list("err");
    let filt = list("filt");
    let sa = if geti(m, "start_after_present", 0) == 1 { Some(geti(m, "start_after", 0).max(0) as u64) } else { None };
    let limit = if geti(m, "limit_present", 0) == 1 { Some(geti(m, "limit", 0).clamp(0, u32::MAX as i128) as u32) } else { None };
    let with_filter = geti(m, "filter_present", 0) == 1;
    let mut deps = cosmwasm_std::testing::mock_dependencies();
    for (i, k) in keys.iter().enumerate() {
        let mut b = Batch::new(*k, Uint128::new(7), 100);
        if filt.get(i).cloned().unwrap_or(0) == 1 {
            b.update_status(BatchStatus::Submitted, Some(5));
            b.expected_native_unstaked = Some(Uint128::new(3));
        }
        staking::state::BATCHES.save(&mut deps.storage, *k, &b).unwrap();
        if err.get(i).cloned().unwrap_or(0) == 1 {
            // undecodable value under the same key
            let key = staking::state::BATCHES.key(*k);
            let raw: Vec<u8> = key.to_vec();
            cosmwasm_std::Storage::set(&mut deps.storage, &raw, b"{not json");
        }
    }
    let status = if with_filter { Some(BatchStatus::Submitted) } else { None };
    let got = symcore::catch(|| staking::query::query_batches(deps.as_ref(), sa, limit, status));
    let want: Vec<u64> = keys
        .iter()
        .enumerate()
        .filter(|(i, k)| sa.map(|s| **k > s).unwrap_or(true) && err.get(*i).cloned().unwrap_or(0) == 0 && (!with_filter || filt.get(*i).cloned().unwrap_or(0) == 1))
        .map(|(_, k)| *k)
        .take(limit.map(|l| l as usize).unwrap_or(usize::MAX))
        .collect();
    match got {
        Err(p) => json!({"reproduced": true, "why": format!("panic: {p}")}),
        Ok(Err(e)) => json!({"reproduced": true, "why": format!("query error: {e}")}),
        Ok(Ok(r)) => {
            let ids: Vec<u64> = r.batches.iter().map(|b| b.id).collect();
            json!({"reproduced": ids != want, "returned": ids, "expected": want, "inputs": {"keys": keys, "err": err, "filt": filt, "start_after": sa, "limit": limit, "filter": with_filter}})
        }
    }
}

/// C16: the batch queries on a store whose pending batch carries the model's deadline.
pub fn batchquery(m: &HashMap<String, String>) -> Value {
    let next = geti(m, "pre:u64, Batch.6.Some.0", 0).max(0) as u64;
    let present = geti(m, "pre:u64, Batch.6#d", 1) == 1;
    let who = Who::new(false);
    let mut chain = scen::instantiate(&CfgSpec::base(), Uint128::new(1000), Uint128::new(1));
    let mut b = staking::state::BATCHES.load(&chain.deps.storage, 1).unwrap();
    b.next_batch_action_time = if present { Some(next) } else { None };
    staking::state::BATCHES.save(&mut chain.deps.storage, 1, &b).unwrap();
    let env = chain.env.clone();
    let mut outcomes = vec![];
    let mut panicked = false;
    for q in [staking::msg::QueryMsg::Batch { id: 1 }, staking::msg::QueryMsg::PendingBatch {}, staking::msg::QueryMsg::Batches { start_after: None, limit: None, status: None }, staking::msg::QueryMsg::BatchesByIds { ids: vec![1] }] {
        let name = format!("{q:?}");
        let r = symcore::catch(|| staking::contract::query(chain.deps.as_ref(), env.clone(), q));
        match r {
            Err(p) => {
                panicked = true;
                outcomes.push(format!("{name}: PANIC {p}"));
            }
            Ok(Err(e)) => outcomes.push(format!("{name}: err {e}")),
            Ok(Ok(_)) => outcomes.push(format!("{name}: ok")),
        }
    }
    let _ = who;
    json!({"reproduced": panicked, "outcomes": outcomes, "inputs": {"next_batch_action_time": next, "present": present}})
}

/// Replays a string counterexample of the denom validators (engine M, C14) on the real functions.
pub fn denom(m: &HashMap<String, String>) -> Value {
    let s = m.get("s").cloned().unwrap_or_default();
    let which = m.get("fn").cloned().unwrap_or_else(|| "validate_denom".into());
    let s2 = s.clone();
    let w2 = which.clone();
    let run = std::panic::catch_unwind(move || if w2 == "validate_ibc_denom" { staking::helpers::validate_ibc_denom(s2) } else { staking::helpers::validate_denom(s2) });
    let spec = if which == "validate_ibc_denom" { s.starts_with("ibc/") && s.len() == 68 } else { s.len() > 3 && s.bytes().all(|b| b.is_ascii_alphabetic()) };
    let real = match run {
        Ok(r) => r,
        Err(_) => return json!({"reproduced": true, "real": "panic", "spec_accepts": spec, "inputs": {"s": s, "fn": which}}),
    };
    let reproduced = match &real {
        Ok(r) => !spec || *r != s,
        Err(_) => spec,
    };
    json!({"reproduced": reproduced, "real": format!("{real:?}"), "spec_accepts": spec, "inputs": {"s": s, "fn": which}})
}

/// Replays a (channel, denom) counterexample of the protocol section's validation (engine M, C14 / C09).
pub fn protocfg(m: &HashMap<String, String>) -> Value {
    let channel = m.get("channel").cloned().unwrap_or_default();
    let denom = m.get("denom").cloned().filter(|d| !d.is_empty()).unwrap_or_else(|| addr::NATIVE_DENOM.to_string());
    let cfg = staking::types::UnsafeProtocolChainConfig { account_address_prefix: "osmo".into(), ibc_token_denom: denom.clone(), ibc_channel_id: channel.clone(), minimum_liquid_stake_amount: cosmwasm_std::Uint128::new(1000), oracle_address: None };
    let real = cfg.validate();
    // specification, written independently: channel-<optional +><decimal digits, value below 2^64>; ibc/ + 64 bytes
    let chan_ok = match channel.strip_prefix("channel-") {
        None => false,
        Some(rest) => {
            let digits = rest.strip_prefix('+').unwrap_or(rest);
            let sig = digits.trim_start_matches('0');
            !digits.is_empty() && digits.bytes().all(|b| b.is_ascii_digit()) && (sig.len() < 20 || (sig.len() == 20 && sig <= "18446744073709551615"))
        }
    };
    let denom_ok = denom.starts_with("ibc/") && denom.len() == 68;
    let reproduced = match &real {
        Ok(c) => !(chan_ok && denom_ok) || c.ibc_channel_id != channel || c.ibc_token_denom != denom,
        Err(_) => chan_ok && denom_ok,
    };
    json!({"reproduced": reproduced, "real": format!("{real:?}"), "spec_accepts": chan_ok && denom_ok, "inputs": {"channel": channel, "denom": denom}})
}
