//! Case enumeration, exploration and reporting.
#![allow(dead_code)]
use crate::scen::{self, CfgSpec, Envelope, St, Structure};
use crate::step::{self, Ctx, Filter, Funds, MintTo, Op, P};
use serde_json::{json, Value};
use staking::state::ibc::PacketLifecycleStatus;
use std::collections::{BTreeMap, BTreeSet};
use std::time::Instant;
use symcore::Verdict;

pub struct Case {
    pub name: String,
    pub run: Box<dyn Fn(&Filter, bool)>,
}

fn rot<T: Clone>(v: &[T], seed: u64, take: usize) -> Vec<T> {
    if v.is_empty() {
        return vec![];
    }
    let k = (seed as usize) % v.len();
    let mut r: Vec<T> = v[k..].to_vec();
    r.extend_from_slice(&v[..k]);
    r.truncate(take);
    r
}

pub fn cfgs(tier: &str, seed: u64) -> Vec<CfgSpec> {
    let mut all = CfgSpec::all();
    if tier == "thorough" {
        // period / monitor variants on the base configuration and its opposite
        all.push(CfgSpec { variant: 1, ..CfgSpec::base() });
        all.push(CfgSpec { variant: 2, ..CfgSpec::base() });
        all.push(CfgSpec { treasury: false, oracle: false, same_prefix: true, stopped: false, variant: 1 });
        return all;
    }
    // quick: the base configuration, its opposite, plus one seed-dependent other
    let mut v = vec![CfgSpec::base(), CfgSpec { treasury: false, oracle: false, same_prefix: true, stopped: false, variant: 0 }];
    let others: Vec<CfgSpec> = all.into_iter().filter(|c| !v.iter().any(|x| x.name() == c.name())).collect();
    v.extend(rot(&others, seed, 1));
    // one period / monitor variant (zero periods and no monitor, or 1 s periods and two monitors), seed-dependent
    v.push(CfgSpec { variant: 1 + (seed % 2) as u8, ..CfgSpec::base() });
    v
}

pub fn structures(tier: &str, seed: u64) -> Vec<Structure> {
    let mut out = vec![];
    for (i, c) in cfgs(tier, seed).iter().enumerate() {
        out.extend(scen::core_structures(c));
        let ext = scen::extended_structures(c);
        if tier == "thorough" {
            // the many-batch and high-id structures are explored on the base configuration only (they do not interact
            // with the treasury / oracle / prefix options and dominate the running time)
            let heavy = |s: &Structure| s.name.contains("/sub") && s.name.ends_with("+pend") && s.batches.len() > 5 || s.name.contains("/ids");
            if i == 0 {
                out.extend(ext);
                out.extend(scen::generated_structures(c));
            } else {
                out.extend(ext.into_iter().filter(|s| !heavy(s)));
            }
        } else if i == 0 {
            // quick: the whole extended family for the base configuration, a seed-dependent pair for the others
            out.extend(ext);
            out.extend(rot(&scen::generated_structures(c), seed * 7, 8));
        } else {
            out.extend(rot(&ext, seed + i as u64, 2));
        }
    }
    out
}

/// Operation menu for one structure (DESIGN 4.4). Admin/config operations are in `admin_menu`.
pub fn menu(s: &Structure) -> Vec<Op> {
    let mut v = vec![];
    let stake = |sender: P, mint_to: MintTo, flag: Option<bool>, expected: bool, funds: Funds, faults: Vec<u8>| Op::Stake { sender, mint_to, flag, expected, funds, faults };
    v.push(stake(P::U(0), MintTo::None, None, false, Funds::Native, vec![]));
    v.push(stake(P::U(0), MintTo::Proto, None, true, Funds::Native, vec![]));
    v.push(stake(P::U(0), MintTo::Native, None, false, Funds::Native, vec![]));
    v.push(stake(P::C32, MintTo::None, None, false, Funds::Native, vec![]));
    v.push(stake(P::C32, MintTo::Proto, None, false, Funds::Native, vec![]));
    v.push(stake(P::HookStaker, MintTo::Native, None, true, Funds::Native, vec![]));
    v.push(stake(P::U(0), MintTo::Invalid, None, false, Funds::Native, vec![]));
    v.push(stake(P::U(0), MintTo::Multi, None, false, Funds::Native, vec![]));
    v.push(stake(P::U(0), MintTo::None, None, false, Funds::Other, vec![]));
    // a second coin next to the expected one must be refused (it would stay in the contract unaccounted)
    v.push(stake(P::U(0), MintTo::None, None, false, Funds::NativeAndLst, vec![]));
    v.push(stake(P::U(0), MintTo::None, None, false, Funds::NativeAndOther, vec![]));
    v.push(stake(P::U(0), MintTo::None, None, false, Funds::None, vec![]));
    v.push(stake(P::U(0), MintTo::None, None, false, Funds::Native, vec![1]));
    v.push(stake(P::U(0), MintTo::Native, None, false, Funds::Native, vec![0, 1]));
    // accepted transfers whose reply carries no response data (the sequence number cannot be learnt)
    v.push(stake(P::U(0), MintTo::None, None, false, Funds::Native, vec![2]));
    v.push(stake(P::U(0), MintTo::Native, None, false, Funds::Native, vec![0, 2]));
    if s.cfg.same_prefix {
        v.push(stake(P::U(0), MintTo::Native, Some(true), false, Funds::Native, vec![]));
        v.push(stake(P::U(0), MintTo::Native, Some(false), false, Funds::Native, vec![]));
        v.push(stake(P::U(0), MintTo::None, Some(true), true, Funds::Native, vec![]));
        v.push(stake(P::U(0), MintTo::Proto, Some(false), false, Funds::Native, vec![]));
    } else {
        v.push(stake(P::U(0), MintTo::Native, Some(false), false, Funds::Native, vec![]));
        v.push(stake(P::U(0), MintTo::Proto, Some(true), false, Funds::Native, vec![]));
    }
    for u in 0..3 {
        v.push(Op::Unstake { sender: P::U(u), funds: Funds::Lst });
    }
    v.push(Op::Unstake { sender: P::U(0), funds: Funds::Native });
    v.push(Op::Unstake { sender: P::U(0), funds: Funds::LstAndNative });
    v.push(Op::Unstake { sender: P::C32, funds: Funds::Lst });
    v.push(Op::Submit { sender: P::U(1) });
    v.push(Op::Submit { sender: P::Contract });
    let nb = s.batches.len() as u64;
    let base = s.id_base;
    let mut ids: Vec<u64> = (base + 1..=base + nb).collect();
    ids.push(base.saturating_add(99));
    for id in &ids {
        for u in 0..3 {
            v.push(Op::Withdraw { sender: P::U(u), batch: *id });
        }
        v.push(Op::ReceiveUnstaked { sender: P::HookStaker, batch: *id, funds: Funds::Native });
        v.push(Op::ReceiveUnstaked { sender: P::StakerAcct, batch: *id, funds: Funds::Native });
    }
    v.push(Op::Withdraw { sender: P::Admin, batch: base + 1 });
    v.push(Op::ReceiveUnstaked { sender: P::HookCollector, batch: base + 1, funds: Funds::Native });
    v.push(Op::ReceiveUnstaked { sender: P::U(0), batch: base + 1, funds: Funds::Native });
    v.push(Op::ReceiveUnstaked { sender: P::Admin, batch: base + 1, funds: Funds::Native });
    v.push(Op::ReceiveUnstaked { sender: P::HookStaker, batch: base + 1, funds: Funds::Lst });
    v.push(Op::ReceiveUnstaked { sender: P::HookStaker, batch: base + 1, funds: Funds::None });
    v.push(Op::Rewards { sender: P::HookCollector, funds: Funds::Native, faults: vec![] });
    v.push(Op::Rewards { sender: P::HookCollector, funds: Funds::Native, faults: vec![1] });
    v.push(Op::Rewards { sender: P::HookCollector, funds: Funds::Native, faults: vec![2] });
    v.push(Op::Rewards { sender: P::HookStaker, funds: Funds::Native, faults: vec![] });
    // the plain native-chain accounts themselves (valid protocol-chain senders when both chains share a prefix)
    v.push(Op::Rewards { sender: P::CollectorAcct, funds: Funds::Native, faults: vec![] });
    v.push(Op::Rewards { sender: P::StakerAcct, funds: Funds::Native, faults: vec![] });
    v.push(Op::Rewards { sender: P::U(0), funds: Funds::Native, faults: vec![] });
    v.push(Op::Rewards { sender: P::Admin, funds: Funds::Native, faults: vec![] });
    v.push(Op::Rewards { sender: P::HookCollector, funds: Funds::Lst, faults: vec![] });
    v.push(Op::Rewards { sender: P::HookCollector, funds: Funds::None, faults: vec![] });
    // recoveries
    let rec = |sender: P, paginated: Option<bool>, selected: Option<Vec<u64>>, receiver: Option<&'static str>, faults: Vec<u8>| Op::Recover { sender, paginated, selected, receiver, faults };
    v.push(rec(P::U(0), None, None, None, vec![]));
    v.push(rec(P::U(0), Some(true), None, None, vec![]));
    v.push(rec(P::U(0), Some(false), None, Some("staker"), vec![]));
    v.push(rec(P::U(0), None, None, Some("n1"), vec![]));
    v.push(rec(P::U(0), Some(true), None, Some("n2"), vec![]));
    v.push(rec(P::U(0), None, None, Some("proto"), vec![]));
    v.push(rec(P::U(0), None, None, Some("garbage"), vec![]));
    v.push(rec(P::U(0), None, None, Some("celesti\u{e9}1qqqqqqqqqqqqqqqqqqqqqqqqqqqqqqqqqqqqqq"), vec![]));
    v.push(rec(P::U(0), None, None, Some("\u{1F600}\u{1F600}\u{1F600}"), vec![]));
    v.push(rec(P::U(0), None, None, None, vec![1]));
    v.push(rec(P::U(0), None, None, None, vec![2]));
    v.push(rec(P::Admin, None, None, None, vec![]));
    let refundable_staker: Vec<u64> = s.packets.iter().filter(|p| p.recv == scen::PRecv::Staker && p.status != PacketLifecycleStatus::Sent && p.denom == scen::PDenom::Native).map(|p| p.seq).collect();
    if let Some(first) = s.packets.first() {
        v.push(rec(P::U(0), None, Some(vec![first.seq]), None, vec![]));
        v.push(rec(P::Monitor, None, Some(vec![first.seq]), None, vec![]));
    }
    if !refundable_staker.is_empty() {
        v.push(rec(P::Admin, None, Some(refundable_staker.clone()), None, vec![]));
        v.push(rec(P::Admin, None, Some(vec![refundable_staker[0]]), Some("staker"), vec![]));
        // admin-forced selection naming the same transfer twice
        v.push(rec(P::Admin, None, Some(vec![refundable_staker[0], refundable_staker[0]]), None, vec![]));
        if refundable_staker.len() >= 2 {
            // repeated ids that are not adjacent, and a reversed selection
            v.push(rec(P::Admin, None, Some(vec![refundable_staker[0], refundable_staker[1], refundable_staker[0]]), None, vec![]));
            v.push(rec(P::Admin, None, Some(vec![refundable_staker[1], refundable_staker[0], refundable_staker[1], refundable_staker[0]]), None, vec![]));
            v.push(rec(P::Admin, None, Some(vec![refundable_staker[1], refundable_staker[0]]), None, vec![]));
        }
    }
    v.push(rec(P::Admin, None, Some(vec![4242]), None, vec![]));
    // admin-forced selection of every tracked transfer of the store (when they share receiver and denom)
    // (refundable ones only: forcing a transfer that is still in flight re-bases the ledgers by design, DESIGN 4.4)
    let all_native_staker = !s.packets.is_empty() && s.packets.iter().all(|p| p.recv == scen::PRecv::Staker && p.denom == scen::PDenom::Native && p.status != PacketLifecycleStatus::Sent);
    if all_native_staker {
        v.push(rec(P::Admin, None, Some(s.packets.iter().map(|p| p.seq).collect()), None, vec![]));
        v.push(rec(P::Admin, None, Some(s.packets.iter().map(|p| p.seq).chain([4242u64]).collect()), None, vec![]));
    }
    v.push(Op::FeeWithdraw { sender: P::Admin });
    v.push(Op::FeeWithdraw { sender: P::U(0) });
    v.push(Op::FeeWithdraw { sender: P::Treasury });
    for p in &s.packets {
        if p.status == PacketLifecycleStatus::Sent {
            for o in 0..3 {
                v.push(Op::Ibc { seq: p.seq, outcome: o });
            }
        }
        v.push(Op::StrayCallback { seq: p.seq, outcome: 0, foreign_channel: true });
        v.push(Op::StrayCallback { seq: p.seq, outcome: 1, foreign_channel: true });
        v.push(Op::StrayCallback { seq: p.seq, outcome: 2, foreign_channel: true });
    }
    for o in 0..3 {
        v.push(Op::StrayCallback { seq: 999, outcome: o, foreign_channel: false });
    }
    v.push(Op::StrayReply { id: 77, ok: true });
    v.push(Op::StrayReply { id: 78, ok: false });
    v.push(Op::Donate { denom: Funds::Native });
    v.push(Op::Donate { denom: Funds::Lst });
    v.push(Op::Breaker { sender: P::Admin });
    v.push(Op::Breaker { sender: P::Monitor });
    v.push(Op::Resume { sender: P::Admin, consistent: true });
    v
}

/// Admin / configuration operations × principals (authorization matrix, C08 / C10 / C12 / C14).
pub fn admin_menu() -> Vec<Op> {
    let mut v = vec![];
    for p in step::all_principals() {
        v.push(Op::Breaker { sender: p.clone() });
        v.push(Op::Resume { sender: p.clone(), consistent: false });
        v.push(Op::FeeWithdraw { sender: p.clone() });
        v.push(Op::AddValidator { sender: p.clone(), which: 0 });
        v.push(Op::RemoveValidator { sender: p.clone(), which: 0 });
        v.push(Op::TransferOwnership { sender: p.clone(), to: P::Nominee });
        v.push(Op::TransferOwnership { sender: p.clone(), to: p.clone() });
        // the admin nominates every kind of principal (monitors, hook accounts, the contract, the treasury ...): the lock is the same for all
        v.push(Op::TransferOwnership { sender: P::Admin, to: p.clone() });
        v.push(Op::AcceptOwnership { sender: p.clone() });
        v.push(Op::RevokeOwnership { sender: p.clone() });
        v.push(Op::UpdateConfig { sender: p.clone(), sections: 31 });
        v.push(Op::Recover { sender: p.clone(), paginated: None, selected: Some(vec![5]), receiver: None, faults: vec![] });
        v.push(Op::Rewards { sender: p.clone(), funds: Funds::Native, faults: vec![] });
        v.push(Op::ReceiveUnstaked { sender: p.clone(), batch: 1, funds: Funds::Native });
        v.push(Op::Withdraw { sender: p.clone(), batch: 1 });
    }
    // the plain native-chain accounts of the staker / collector as senders of the hook messages (valid protocol-chain
    // senders when both chains share a prefix): only their ibc-hooks accounts are authorised
    for p in [P::StakerAcct, P::CollectorAcct, P::N1] {
        v.push(Op::Rewards { sender: p.clone(), funds: Funds::Native, faults: vec![] });
        for b in 1..=3 {
            v.push(Op::ReceiveUnstaked { sender: p.clone(), batch: b, funds: Funds::Native });
        }
    }
    // forced recovery of transfers addressed to the caller itself (a native-chain account can be a sender when both
    // chains share a prefix): still admin-only
    for (p, ids) in [(P::N1, vec![6u64]), (P::N1, vec![7]), (P::StakerAcct, vec![3]), (P::StakerAcct, vec![5]), (P::StakerAcct, vec![2, 4]), (P::U(0), vec![5]), (P::Admin, vec![5])] {
        for r in [Some("self"), Some("n1"), Some("staker")] {
            v.push(Op::Recover { sender: p.clone(), paginated: None, selected: Some(ids.clone()), receiver: r, faults: vec![] });
        }
    }
    // the third user is a configured monitor in configuration variant 2
    v.push(Op::Breaker { sender: P::U(2) });
    v.push(Op::TransferOwnership { sender: P::Admin, to: P::U(2) });
    v.push(Op::TransferOwnership { sender: P::Admin, to: P::Treasury });
    for w in 1..8 {
        v.push(Op::AddValidator { sender: P::Admin, which: w });
        v.push(Op::RemoveValidator { sender: P::Admin, which: w });
    }
    for sections in 0..32u8 {
        v.push(Op::UpdateConfig { sender: P::Admin, sections });
    }
    v.push(Op::UpdateConfig { sender: P::Admin, sections: crate::cfgops::S_PROTOCOL | crate::cfgops::S_FEE | crate::cfgops::S_NEWPREFIX });
    v.push(Op::UpdateConfig { sender: P::Admin, sections: crate::cfgops::S_PROTOCOL | crate::cfgops::S_FEE | crate::cfgops::S_OLDPREFIX_TREASURY });
    v.push(Op::UpdateConfig { sender: P::Admin, sections: crate::cfgops::S_PROTOCOL | crate::cfgops::S_NEWPREFIX });
    v.push(Op::UpdateConfig { sender: P::Admin, sections: crate::cfgops::S_PROTOCOL | crate::cfgops::S_MONITORS | crate::cfgops::S_NEWPREFIX });
    v.push(Op::UpdateConfig { sender: P::Admin, sections: crate::cfgops::S_PROTOCOL | crate::cfgops::S_FEE | crate::cfgops::S_MONITORS | crate::cfgops::S_NEWPREFIX });
    v.push(Op::UpdateConfig { sender: P::Admin, sections: crate::cfgops::S_PROTOCOL | crate::cfgops::S_MONITORS | crate::cfgops::S_OLDPREFIX_TREASURY });
    v
}

fn envelope_for(_props: &BTreeSet<String>) -> Envelope {
    // default: C16's envelope (amounts <= 10^27, totals <= 10^30, rate in [10^-3, 10^3]);
    // SYMX_ENVELOPE=full lifts it to plain 128-bit representability (slower: overflow paths fork)
    match std::env::var("SYMX_ENVELOPE").as_deref() {
        Ok("full") => Envelope::Full,
        _ => Envelope::C16,
    }
}

pub fn step_case(s: Structure, op: Op, env: Envelope) -> Case {
    let name = format!("step:{}:{}", s.name, op.name());
    Case {
        name,
        run: Box::new(move |f: &Filter, miniwasm: bool| {
            let mut b = scen::build(&s);
            scen::assume_inv(&b.chain, &b.ghost, env);
            let who = b.chain.who.clone();
            let out = step::run(&mut b, &op, "", env);
            let cx = Ctx { f, who: &who, miniwasm };
            step::post_inv(&cx, &b, &out);
            step::post_op(&cx, &b, &op, &out);
            symcore::note(format!("outcome={}", out.tx.kind()));
            symcore::note(format!("detail={}", out.tx.detail()));
        }),
    }
}

/// Admin-forced recovery with every selection sequence of up to 3 ids (tracked ids and an unknown one),
/// default and explicit receiver. Forcing in-flight transfers re-bases the ledgers by design, so `Inv` is not
/// re-proved here; what is decided: no panic, exact selection semantics, re-sent sum, rollback on error.
pub fn recmat_case(s: Structure, sel: Vec<u64>, receiver: Option<&'static str>, env: Envelope) -> Case {
    let name = format!("recmat:{}:{:?}:{}", s.name, sel, receiver.unwrap_or("default"));
    Case {
        name,
        run: Box::new(move |f: &Filter, miniwasm: bool| {
            let mut b = scen::build(&s);
            scen::assume_inv(&b.chain, &b.ghost, env);
            let who = b.chain.who.clone();
            let op = Op::Recover { sender: P::Admin, paginated: None, selected: Some(sel.clone()), receiver, faults: vec![] };
            let out = step::run(&mut b, &op, "", env);
            let _ = miniwasm;
            symcore::note(format!("outcome={}", out.tx.kind()));
            symcore::note(format!("detail={}", out.tx.detail()));
            if let crate::world::Tx::Panic(p) = &out.tx {
                step::prove(f, &format!("C16:no panic [{}]", step::panic_key(p)), "false".into());
                return;
            }
            step::claim(f, "C16:entry point returned a result or a typed error", true);
            let recv = match receiver {
                None => who.staker.clone(),
                Some("n1") => who.n1.clone(),
                Some(o) => o.to_string(),
            };
            let mut distinct: Vec<u64> = vec![];
            for id in &sel {
                if !distinct.contains(id) {
                    distinct.push(*id);
                }
            }
            let pre = &out.pre;
            let all_exist = distinct.iter().all(|id| pre.packets.contains_key(id));
            let recv_ok = all_exist && distinct.iter().all(|id| pre.packets[id].2 == recv);
            let denoms: BTreeSet<String> = distinct.iter().filter_map(|id| pre.packets.get(id).map(|p| p.0.clone())).collect();
            let selectable = all_exist && recv_ok && denoms.len() == 1;
            match &out.tx {
                crate::world::Tx::Ok { msgs, .. } => {
                    step::claim(f, "C07:forced recovery succeeds only when every selected id is tracked, for the given receiver, in one denom", selectable);
                    let removed: Vec<u64> = pre.packets.keys().filter(|k| !out.post.packets.contains_key(k)).cloned().collect();
                    let mut want = distinct.clone();
                    want.sort();
                    step::claim(f, "C07:forced recovery consumes exactly the selected transfers, each once", removed == want);
                    let total = crate::t::sum(&want.iter().filter_map(|k| pre.packets.get(k).map(|p| p.1.clone())).collect::<Vec<_>>());
                    let tr: Vec<&crate::world::Emitted> = msgs.iter().filter(|m| matches!(m, crate::world::Emitted::Transfer { .. })).collect();
                    step::claim(f, "C07:forced recovery emits exactly one transfer and nothing else", tr.len() == 1 && msgs.len() == 1);
                    if let Some(crate::world::Emitted::Transfer { receiver: r2, denom, amount, seq, .. }) = tr.first() {
                        step::claim(f, "C07:forced re-send goes to the selected receiver in the selected denom", *r2 == recv && denoms.iter().next() == Some(denom));
                        step::prove(f, "C07:forced re-send carries the sum of the selected transfers, each counted once", crate::t::eq(amount, &total));
                        step::claim(f, "C07:forced re-send is tracked under a fresh sequence", seq.map(|q| out.post.packets.contains_key(&q) && !pre.packets.contains_key(&q)).unwrap_or(false));
                    }
                    step::packets_same(f, "C07:other tracked transfers untouched by forced recovery", pre, &out.post, &want);
                    step::prove_same(f, "C01:forced recovery leaves the totals alone", &[(&out.post.n, &pre.n), (&out.post.l, &pre.l), (&out.post.fees, &pre.fees), (&out.post.rewards, &pre.rewards)]);
                }
                crate::world::Tx::Err(e) => {
                    step::claim(f, "C08:failed operation changes nothing", pre.raw == out.post.raw);
                    if selectable {
                        step::claim(f, &format!("C07:a well-formed forced selection is accepted from the admin [{}]", step::short(e)), false);
                    }
                }
                _ => {
                    step::claim(f, "C08:failed operation changes nothing", pre.raw == out.post.raw);
                }
            }
        }),
    }
}

pub fn cases(suite: &str, tier: &str, seed: u64, props: &BTreeSet<String>) -> Vec<Case> {
    let env = envelope_for(props);
    let mut out = vec![];
    match suite {
        "step" => {
            for s in structures(tier, seed) {
                for op in menu(&s) {
                    out.push(step_case(s.clone(), op, env));
                }
            }
        }
        "admin" => {
            // authorization matrix on a structure with packets, batches in every status, and a nomination pending
            for cfg in [CfgSpec::base(), CfgSpec { treasury: false, oracle: false, same_prefix: false, stopped: true, variant: 0 }, CfgSpec { variant: 1, ..CfgSpec::base() }, CfgSpec { variant: 2, ..CfgSpec::base() }, CfgSpec { same_prefix: true, ..CfgSpec::base() }] {
                for s in scen::core_structures(&cfg).into_iter().filter(|s| s.name.ends_with("/packets") || s.name.ends_with("/rec+sub+pend") || (cfg.same_prefix && s.name.ends_with("/refund2"))) {
                    for op in admin_menu() {
                        out.push(step_case(s.clone(), op, env));
                    }
                }
            }
        }
        "halted" => {
            // C10: every value-moving message on a halted contract, from structures where the same step succeeds when running
            for base in [CfgSpec::base(), CfgSpec { treasury: false, oracle: false, same_prefix: true, stopped: false, variant: 0 }] {
                let cfg = CfgSpec { stopped: true, ..base };
                for s in scen::core_structures(&cfg) {
                    for op in menu(&s) {
                        if matches!(op, Op::Stake { .. } | Op::Unstake { .. } | Op::Submit { .. } | Op::Withdraw { .. } | Op::Rewards { .. } | Op::ReceiveUnstaked { .. } | Op::Breaker { .. } | Op::Resume { .. } | Op::Ibc { .. } | Op::StrayCallback { .. } | Op::Recover { .. }) {
                            out.push(step_case(s.clone(), op, env));
                        }
                    }
                }
            }
        }
        "recmat" => {
            let base = CfgSpec::base();
            let mut ss = scen::core_structures(&base);
            ss.extend(scen::extended_structures(&base));
            for s in ss.into_iter().filter(|s| !s.packets.is_empty() && s.packets.len() <= 4) {
                let mut ids: Vec<u64> = s.packets.iter().map(|p| p.seq).collect();
                ids.push(4242);
                let mut sels: Vec<Vec<u64>> = vec![vec![]];
                let maxlen = if tier == "thorough" { 4 } else { 3 };
                let mut frontier: Vec<Vec<u64>> = vec![vec![]];
                for _ in 0..maxlen {
                    let mut next = vec![];
                    for fr in &frontier {
                        for id in &ids {
                            let mut x = fr.clone();
                            x.push(*id);
                            next.push(x);
                        }
                    }
                    sels.extend(next.clone());
                    frontier = next;
                }
                for sel in sels {
                    for r in [None, Some("n1")] {
                        out.push(recmat_case(s.clone(), sel.clone(), r, env));
                    }
                }
            }
        }
        "seq" => {
            // generated operation sequences; the replay (tier "thorough", seed 0) regenerates every name
            for cfg in [CfgSpec::base(), CfgSpec { treasury: false, oracle: false, same_prefix: false, stopped: false, variant: 0 }] {
                out.extend(crate::hist::sequences(&cfg, tier, seed));
            }
        }
        "hist" => {
            for cfg in cfgs(tier, seed) {
                out.extend(crate::hist::histories(&cfg, tier));
            }
        }
        "qry" => out.extend(crate::qry::cases(tier, seed)),
        "cfgmat" => out.extend(crate::cfgmat::cases(tier)),
        "ops" => out.extend(crate::opsval::cases(tier)),
        "tre" => out.extend(crate::tre::cases(tier)),
        "mig" => out.extend(crate::mig::cases(tier)),
        other => panic!("SYMX: unknown suite {other}"),
    }
    out
}

pub fn list_cases(suite: &str, tier: &str, seed: u64) -> Vec<String> {
    cases(suite, tier, seed, &BTreeSet::new()).into_iter().map(|c| c.name).collect()
}

fn verdict_json(v: &Verdict) -> Value {
    match v {
        Verdict::Proved => json!("proved"),
        Verdict::Refuted(m) => json!({"refuted": m.iter().map(|(k, v)| (k.clone(), Value::String(v.clone()))).collect::<serde_json::Map<String, Value>>()}),
        Verdict::Unknown(s) => json!({ "unknown": s }),
    }
}

pub fn run_suite(suite: &str, props: &BTreeSet<String>, tier: &str, seed: u64, si: usize, sn: usize, miniwasm: bool, only: Option<&str>, ops: &[String], only_sub: Option<&str>) -> Value {
    let t0 = Instant::now();
    let filter = Filter { props: props.clone() };
    let mut all = cases(suite, tier, seed, props);
    if !ops.is_empty() {
        all.retain(|c| {
            let op = c.name.splitn(3, ':').nth(2).unwrap_or("");
            ops.iter().any(|k| op.starts_with(k.as_str()))
        });
    }
    if let Some(sub) = only_sub {
        all.retain(|c| c.name.contains(sub));
    }
    let total_cases = all.len();
    let mut n_cases = 0;
    let mut n_paths = 0u64;
    let mut outcomes: BTreeMap<String, u64> = BTreeMap::new();
    let mut by_label: BTreeMap<String, [u64; 3]> = BTreeMap::new();
    let mut failures: Vec<Value> = vec![];
    let mut engine_errors: Vec<Value> = vec![];
    let mut samples: Vec<Value> = vec![];
    let mut digests: serde_json::Map<String, Value> = serde_json::Map::new();
    let max_paths = if tier == "thorough" { 4000 } else { 1500 };
    for (i, c) in all.iter().enumerate() {
        if i % sn != si {
            continue;
        }
        if let Some(o) = only {
            if c.name != o {
                continue;
            }
        }
        n_cases += 1;
        let runs = symcore::explore(max_paths, || (c.run)(&filter, miniwasm));
        if std::env::var("SYMX_DIGEST").is_ok() {
            // per case: every path's decisions and per-step behaviour notes (the miniwasm build must produce the same)
            let mut d = String::new();
            for r in &runs {
                d.push_str(&format!("{:?}", r.decisions));
                for n in r.notes.iter().filter(|n| n.starts_with('m') || n.starts_with("outcome")) {
                    d.push_str(n);
                    d.push('\n');
                }
            }
            digests.insert(c.name.clone(), Value::String(d));
        }
        for (pi, r) in runs.iter().enumerate() {
            n_paths += 1;
            if let Err(e) = &r.value {
                engine_errors.push(json!({"case": c.name, "error": e, "decisions": r.decisions}));
                continue;
            }
            let kind = r.notes.iter().find_map(|n| n.strip_prefix("outcome=")).unwrap_or("?").to_string();
            *outcomes.entry(kind.clone()).or_insert(0) += 1;
            for o in &r.obligations {
                let e = by_label.entry(o.label.clone()).or_insert([0, 0, 0]);
                match &o.verdict {
                    Verdict::Proved => e[0] += 1,
                    Verdict::Refuted(_) => e[1] += 1,
                    Verdict::Unknown(_) => e[2] += 1,
                }
                if !matches!(o.verdict, Verdict::Proved) && o.label.contains("SYMX") {
                    engine_errors.push(json!({"case": c.name, "error": o.label, "decisions": r.decisions}));
                    continue;
                }
                if !matches!(o.verdict, Verdict::Proved) {
                    failures.push(json!({
                        "case": c.name, "path": pi, "label": o.label, "formula": o.formula, "verdict": verdict_json(&o.verdict),
                        "alts": o.alts.iter().map(|m| m.iter().map(|(k, v)| (k.clone(), Value::String(v.clone()))).collect::<serde_json::Map<String, Value>>()).collect::<Vec<_>>(),
                        "decisions": r.decisions, "notes": r.notes,
                    }));
                }
            }
            if samples.len() < 6 && !r.obligations.is_empty() && (pi == 0 || samples.len() < 3) {
                samples.push(json!({
                    "case": c.name, "path": pi, "outcome": kind, "decisions": r.decisions,
                    "obligations": r.obligations.iter().take(6).map(|o| json!({"label": o.label, "formula": o.formula.chars().take(300).collect::<String>(), "verdict": verdict_json(&o.verdict)})).collect::<Vec<_>>(),
                }));
            }
        }
    }
    let st = symcore::stats();
    let want_digest = std::env::var("SYMX_DIGEST").is_ok();
    json!({
        "digests": if want_digest { Value::Object(digests) } else { Value::Null },
        "suite": suite, "tier": tier, "seed": seed, "shard": format!("{si}/{sn}"), "miniwasm": miniwasm,
        "props": props.iter().collect::<Vec<_>>(),
        "total_cases": total_cases, "cases": n_cases, "paths": n_paths, "outcomes": outcomes,
        "by_label": by_label.iter().map(|(k, v)| (k.clone(), json!({"proved": v[0], "refuted": v[1], "unknown": v[2]}))).collect::<serde_json::Map<String, Value>>(),
        "failures": failures, "engine_errors": engine_errors, "samples": samples,
        "solver": {"queries": st.queries, "cache_hits": st.cache_hits, "solver_ms": st.solver_ms as u64, "unknowns": st.unknowns, "errors": st.errors, "forks": st.forks, "decisions": st.decisions, "fallback_queries": st.fallback_queries,
                   "xcheck_queries": st.xcheck_queries, "xcheck_disagree": st.xcheck_disagree, "xcheck_unknown": st.xcheck_unknown, "xcheck_ms": st.xcheck_ms as u64},
        "wall_s": t0.elapsed().as_secs_f64(),
    })
}

/// Concrete replay of one case on the real (unpatched) build: does the labelled obligation fail?
pub fn replay_case(suite: &str, case: &str, props: &BTreeSet<String>, label: &str, miniwasm: bool) -> Value {
    let filter = Filter { props: props.clone() };
    if suite == "seq" {
        std::env::set_var("SYMX_SEQ_STRIDE", "1");
    }
    let all = cases(suite, "thorough", 0, props);
    let c = match all.iter().find(|c| c.name == case) {
        Some(c) => c,
        None => return json!({"reproduced": false, "error": format!("unknown case {case}")}),
    };
    let r = symcore::catch(|| (c.run)(&filter, miniwasm));
    let obs = symcore::take_obligations();
    let notes = symcore::take_notes();
    if let Err(e) = r {
        return json!({"reproduced": false, "error": format!("harness panic: {e}"), "notes": notes});
    }
    let failed: Vec<String> = obs.iter().filter(|o| !matches!(o.verdict, Verdict::Proved)).map(|o| o.label.clone()).collect();
    let hit = failed.iter().any(|l| l == label || label.is_empty());
    json!({"reproduced": hit, "failed_labels": failed, "notes": notes, "obligations": obs.len()})
}
