//! Operation menu (DESIGN 4.4), one-step executor with ghost updates, and the per-property
//! post-conditions that are proved on every path of every step.
#![allow(dead_code)]
use crate::addr::{self, Who};
use crate::scen::{self, Built, Envelope, Ghost, Snap};
use crate::t::{self, T};
use crate::world::{coin, Chain, Emitted, PState, Tx, WorldState};
use cosmwasm_std::{ReplyOn, Uint128};
use milky_way::staking::BatchStatus;
use staking::msg::ExecuteMsg;
use staking::state::ibc::PacketLifecycleStatus;
use std::collections::{BTreeMap, BTreeSet};

#[derive(Clone, Debug, PartialEq)]
pub enum P {
    Admin,
    ExAdmin,
    Nominee,
    Monitor,
    U(usize),
    C32,
    Contract,
    HookStaker,
    HookCollector,
    Treasury,
    /// ibc-hooks accounts of the configuration after `UpdateConfig` (channel-9, staker n2, collector n1)
    HookStaker2,
    HookCollector2,
    /// ibc-hooks accounts of the original staker / collector through the *new* channel (channel-9)
    HookStaker3,
    HookCollector3,
    /// native-chain accounts acting as senders on the protocol chain (meaningful when both chains share a prefix)
    N1,
    StakerAcct,
    CollectorAcct,
}
pub fn who_addr(w: &Who, p: &P) -> String {
    match p {
        P::Admin => w.admin.clone(),
        P::ExAdmin => w.ex_admin.clone(),
        P::Nominee => w.nominee.clone(),
        P::Monitor => w.monitor.clone(),
        P::U(i) => [w.u1.clone(), w.u2.clone(), w.u3.clone()][*i].clone(),
        P::C32 => w.c32.clone(),
        P::Contract => w.contract.clone(),
        P::HookStaker => w.hook_staker.clone(),
        P::HookCollector => w.hook_collector.clone(),
        P::Treasury => w.treasury.clone(),
        P::HookStaker2 => crate::addr::hook_sender("channel-9", &w.n2, &w.pp),
        P::HookCollector2 => crate::addr::hook_sender("channel-9", &w.n1, &w.pp),
        P::HookStaker3 => crate::addr::hook_sender("channel-9", &w.staker, &w.pp),
        P::HookCollector3 => crate::addr::hook_sender("channel-9", &w.collector, &w.pp),
        P::N1 => w.n1.clone(),
        P::StakerAcct => w.staker.clone(),
        P::CollectorAcct => w.collector.clone(),
    }
}
pub fn all_principals() -> Vec<P> {
    vec![P::Admin, P::ExAdmin, P::Nominee, P::Monitor, P::U(0), P::U(1), P::C32, P::Contract, P::HookStaker, P::HookCollector]
}

#[derive(Clone, Debug, PartialEq)]
pub enum MintTo {
    None,
    Proto, // u2 on the protocol chain
    Native, // n1 on the native chain
    Invalid,
    Multi, // a string with a multi-byte character right after the protocol prefix
}
#[derive(Clone, Debug, PartialEq)]
pub enum Funds {
    Native,
    Lst,
    Other,
    None,
    /// two coins in one message: the expected coin plus a second one (the LST, resp. the staked asset, resp. a foreign denom)
    NativeAndLst,
    NativeAndOther,
    LstAndNative,
}

#[derive(Clone, Debug)]
pub enum Op {
    Stake { sender: P, mint_to: MintTo, flag: Option<bool>, expected: bool, funds: Funds, faults: Vec<u8> },
    Unstake { sender: P, funds: Funds },
    /// unstake exactly the amount minted by the most recent stake (round-trip clause of C04)
    UnstakeMinted { sender: P },
    Submit { sender: P },
    Withdraw { sender: P, batch: u64 },
    Rewards { sender: P, funds: Funds, faults: Vec<u8> },
    ReceiveUnstaked { sender: P, batch: u64, funds: Funds },
    Recover { sender: P, paginated: Option<bool>, selected: Option<Vec<u64>>, receiver: Option<&'static str>, faults: Vec<u8> },
    FeeWithdraw { sender: P },
    Ibc { seq: u64, outcome: u8 },
    StrayCallback { seq: u64, outcome: u8, foreign_channel: bool },
    /// `reply` entry point with an id nobody is waiting for (success or error result)
    StrayReply { id: u64, ok: bool },
    Breaker { sender: P },
    Resume { sender: P, consistent: bool },
    /// admin override that re-bases only the staked total (LST and reward totals are passed unchanged)
    ResumeStaked { sender: P },
    Donate { denom: Funds },
    AddValidator { sender: P, which: u8 },
    RemoveValidator { sender: P, which: u8 },
    TransferOwnership { sender: P, to: P },
    AcceptOwnership { sender: P },
    RevokeOwnership { sender: P },
    UpdateConfig { sender: P, sections: u8 },
    /// admin update of the fee section only: new symbolic rate, treasury switched on / off
    SetTreasury { on: bool },
}

impl Op {
    pub fn name(&self) -> String {
        format!("{self:?}").replace(' ', "")
    }
    pub fn sender(&self) -> Option<&P> {
        match self {
            Op::Stake { sender, .. }
            | Op::Unstake { sender, .. }
            | Op::UnstakeMinted { sender }
            | Op::Submit { sender }
            | Op::Withdraw { sender, .. }
            | Op::Rewards { sender, .. }
            | Op::ReceiveUnstaked { sender, .. }
            | Op::Recover { sender, .. }
            | Op::FeeWithdraw { sender }
            | Op::Breaker { sender }
            | Op::Resume { sender, .. }
            | Op::ResumeStaked { sender }
            | Op::AddValidator { sender, .. }
            | Op::RemoveValidator { sender, .. }
            | Op::TransferOwnership { sender, .. }
            | Op::AcceptOwnership { sender }
            | Op::RevokeOwnership { sender }
            | Op::UpdateConfig { sender, .. } => Some(sender),
            _ => None,
        }
    }
}

pub struct StepOut {
    pub op: Option<Op>,
    pub pre: Snap,
    pub post: Snap,
    pub tx: Tx,
    pub gpre: Ghost,
    pub wpre: WorldState,
    /// symbolic inputs of the operation: (name, term)
    pub inputs: Vec<(String, T)>,
    pub now: u64,
}

fn var(name: &str) -> Uint128 {
    Uint128::new(symcore::var(name))
}

pub fn funds_coin(w: &Who, f: &Funds, amount: Uint128) -> Vec<cosmwasm_std::Coin> {
    match f {
        Funds::Native => vec![coin(addr::NATIVE_DENOM, amount)],
        Funds::Lst => vec![coin(&w.lst_denom(), amount)],
        Funds::Other => vec![coin(addr::OTHER_DENOM, amount)],
        Funds::None => vec![],
        // the chain hands coins over sorted by denom
        Funds::NativeAndLst | Funds::LstAndNative => {
            let mut v = vec![coin(addr::NATIVE_DENOM, amount), coin(&w.lst_denom(), amount)];
            v.sort_by(|a, b| a.denom.cmp(&b.denom));
            v
        }
        Funds::NativeAndOther => {
            let mut v = vec![coin(addr::NATIVE_DENOM, amount), coin(addr::OTHER_DENOM, amount)];
            v.sort_by(|a, b| a.denom.cmp(&b.denom));
            v
        }
    }
}

/// Executes one operation with fresh symbolic inputs and updates the ghost ledgers from what the
/// world observed. `pfx` makes input names unique inside multi-step histories.
pub fn run(b: &mut Built, op: &Op, pfx: &str, env: Envelope) -> StepOut {
    let who = b.chain.who.clone();
    let lst = who.lst_denom();
    let pre = scen::snap(&b.chain);
    let gpre = b.ghost.clone();
    let wpre = b.chain.w.clone();
    let now = b.chain.now();
    let mut inputs: Vec<(String, T)> = vec![];
    let fixed = b.fixed_inputs;
    let mut input = |name: &str, cap27: bool| -> Uint128 {
        let full = format!("{pfx}{name}");
        if fixed {
            let c: u128 = match name {
                "amt" => 1_000_000,
                "uns" => 300_000,
                "rew" => 50_000,
                "rcv" => 290_000,
                "fw" => 10,
                "don" => 77,
                "exp" => 1,
                _ => 1_000,
            };
            // SYMX_FIXED_SCALE multiplies every fixed input (concrete build comparison beyond 2^64 / 2^96)
            let scale: u128 = std::env::var("SYMX_FIXED_SCALE").ok().and_then(|v| v.parse().ok()).unwrap_or(1);
            let c = c.saturating_mul(scale);
            inputs.push((full, c.to_string()));
            return Uint128::new(c);
        }
        let v = var(&full);
        if env == Envelope::C16 && cap27 {
            symcore::assume(t::le(&t::ut(v), t::E27));
        }
        inputs.push((full, t::ut(v)));
        v
    };
    let tx = match op {
        Op::Stake { sender, mint_to, flag, expected, funds, faults } => {
            let a = input("amt", true);
            let exp = if *expected { Some(input("exp", true)) } else { None };
            let mt = match mint_to {
                MintTo::None => None,
                MintTo::Proto => Some(who.u2.clone()),
                MintTo::Native => Some(who.n1.clone()),
                MintTo::Invalid => Some("osmo1invalid".to_string()),
                MintTo::Multi => Some(format!("{}\u{e9}{}", who.pp, &who.u2[who.pp.len() + 1..])),
            };
            b.chain.fail_submit = faults.clone();
            let s = who_addr(&who, sender);
            b.chain.execute(&s, &funds_coin(&who, funds, a), ExecuteMsg::LiquidStake { mint_to: mt, transfer_to_native_chain: *flag, expected_mint_amount: exp })
        }
        Op::Unstake { sender, funds } => {
            let u = input("uns", true);
            // chain fact: nobody can send more LST than exists outside the contract
            if *funds == Funds::Lst {
                symcore::assume(t::le(&t::add(&t::ut(u), &scen::lst_held(&b.chain)), &b.chain.supply_of(&lst)));
            }
            let s = who_addr(&who, sender);
            b.chain.execute(&s, &funds_coin(&who, funds, u), ExecuteMsg::LiquidUnstake {})
        }
        Op::UnstakeMinted { sender } => {
            let s = who_addr(&who, sender);
            let (paid, minted) = b.last_stake.clone().expect("SYMX-HARNESS: UnstakeMinted without a previous stake");
            let amt = if symcore::is_concrete_mode() { minted.parse::<u128>().expect("SYMX-HARNESS: minted amount is not a literal") } else { symcore::mk(minted.clone()) };
            let r = b.chain.execute(&s, &funds_coin(&who, &Funds::Lst, Uint128::new(amt)), ExecuteMsg::LiquidUnstake {});
            if r.is_ok() && !pre.reqs.contains_key(&(pre.pending_id, s.clone())) {
                b.roundtrip = Some((s.clone(), paid, minted));
            }
            r
        }
        Op::Submit { sender } => {
            let s = who_addr(&who, sender);
            b.chain.execute(&s, &[], ExecuteMsg::SubmitBatch {})
        }
        Op::Withdraw { sender, batch } => {
            let s = who_addr(&who, sender);
            b.chain.execute(&s, &[], ExecuteMsg::Withdraw { batch_id: *batch })
        }
        Op::Rewards { sender, funds, faults } => {
            let x = input("rew", true);
            if env == Envelope::C16 {
                // C16's envelope speaks about the exchange rates of the execution: the rate after the
                // reward must stay within [10^-3, 10^3] as well
                symcore::assume(t::le(&t::add(&pre.n, &t::ut(x)), &t::mul("1000", &pre.l)));
            }
            b.chain.fail_submit = faults.clone();
            let s = who_addr(&who, sender);
            b.chain.execute(&s, &funds_coin(&who, funds, x), ExecuteMsg::ReceiveRewards {})
        }
        Op::ReceiveUnstaked { sender, batch, funds } => {
            let r = input("rcv", true);
            let s = who_addr(&who, sender);
            b.chain.execute(&s, &funds_coin(&who, funds, r), ExecuteMsg::ReceiveUnstakedTokens { batch_id: *batch })
        }
        Op::Recover { sender, paginated, selected, receiver, faults } => {
            b.chain.fail_submit = faults.clone();
            let s = who_addr(&who, sender);
            let recv = receiver.map(|r| match r {
                "self" => s.clone(),
                "staker" => who.staker.clone(),
                "n1" => who.n1.clone(),
                "n2" => who.n2.clone(),
                "proto" => who.u2.clone(),
                other => other.to_string(),
            });
            b.chain.execute(&s, &[], ExecuteMsg::RecoverPendingIbcTransfers { paginated: *paginated, selected_packets: selected.clone(), receiver: recv })
        }
        Op::FeeWithdraw { sender } => {
            let x = input("fw", true);
            let s = who_addr(&who, sender);
            b.chain.execute(&s, &[], ExecuteMsg::FeeWithdraw { amount: x })
        }
        Op::Ibc { seq, outcome } => {
            let pk = b.chain.w.packets.iter().find(|p| p.seq == *seq).cloned();
            let r = b.chain.ibc_outcome(*seq, *outcome);
            if let Some(p) = pk {
                if *outcome == 0 && p.state == PState::Sent && p.denom == addr::NATIVE_DENOM && p.sender == who.contract {
                    b.ghost.delivered = t::add(&b.ghost.delivered, &p.amount);
                }
            }
            r
        }
        Op::StrayCallback { seq, outcome, foreign_channel } => {
            let ch = if *foreign_channel { addr::OTHER_CHANNEL } else { addr::CHANNEL };
            b.chain.sudo_callback(ch, *seq, *outcome)
        }
        Op::StrayReply { id, ok } => {
            use cosmwasm_std::{Binary, Reply, SubMsgResponse, SubMsgResult};
            let result = if *ok { SubMsgResult::Ok(SubMsgResponse { events: vec![], data: Some(Binary::from(vec![8u8, 9u8])) }) } else { SubMsgResult::Err("boom".into()) };
            let env = b.chain.env.clone();
            let rid = *id;
            let r = symcore::catch(|| staking::contract::reply(b.chain.deps.as_mut(), env, Reply { id: rid, result }));
            match r {
                Err(p) if p.contains("SYMX") => panic!("{p}"),
                Err(p) => Tx::Panic(p),
                Ok(Err(e)) => Tx::Err(e.to_string()),
                Ok(Ok(_)) => Tx::Ok { msgs: vec![], attrs: vec![], hooks: vec![] },
            }
        }
        Op::Breaker { sender } => {
            let s = who_addr(&who, sender);
            b.chain.execute(&s, &[], ExecuteMsg::CircuitBreaker {})
        }
        Op::Resume { sender, consistent } => {
            let s = who_addr(&who, sender);
            let (n, l, r) = if *consistent {
                let st = staking::state::STATE.load(&b.chain.deps.storage).unwrap();
                (st.total_native_token, st.total_liquid_stake_token, st.total_reward_amount)
            } else {
                let (n, l, r) = (input("rn", true), input("rl", true), input("rr", true));
                if env == Envelope::C16 {
                    let (nt, lt) = (t::ut(n), t::ut(l));
                    symcore::assume(t::implies(&t::gt(&lt, "0"), &t::and(&[t::le(&nt, &t::mul("1000", &lt)), t::le(&lt, &t::mul("1000", &nt))])));
                }
                (n, l, r)
            };
            b.chain.execute(&s, &[], ExecuteMsg::ResumeContract { total_native_token: n, total_liquid_stake_token: l, total_reward_amount: r })
        }
        Op::ResumeStaked { sender } => {
            let s = who_addr(&who, sender);
            let st = staking::state::STATE.load(&b.chain.deps.storage).unwrap();
            let n = input("rn", true);
            if env == Envelope::C16 {
                let (nt, lt) = (t::ut(n), t::ut(st.total_liquid_stake_token));
                symcore::assume(t::implies(&t::gt(&lt, "0"), &t::and(&[t::le(&nt, &t::mul("1000", &lt)), t::le(&lt, &t::mul("1000", &nt))])));
            }
            let r = b.chain.execute(&s, &[], ExecuteMsg::ResumeContract { total_native_token: n, total_liquid_stake_token: st.total_liquid_stake_token, total_reward_amount: st.total_reward_amount });
            if r.is_ok() {
                // the admin asserts that the staker holds the new total: re-base the forwarding ghost (I1)
                b.ghost.delivered = t::add(&b.ghost.delivered, &t::sub(&t::ut(n), &pre.n));
            }
            r
        }
        Op::Donate { denom } => {
            let d = input("don", true);
            let dn = match denom {
                Funds::Native => addr::NATIVE_DENOM.to_string(),
                Funds::Lst => lst.clone(),
                _ => addr::OTHER_DENOM.to_string(),
            };
            if *denom == Funds::Lst {
                symcore::assume(t::le(&t::add(&t::ut(d), &scen::lst_held(&b.chain)), &b.chain.supply_of(&lst)));
            }
            b.chain.donate(&who.u3.clone(), &dn, &t::ut(d));
            match denom {
                Funds::Native => b.ghost.don_n = t::add(&b.ghost.don_n, &t::ut(d)),
                Funds::Lst => b.ghost.don_l = t::add(&b.ghost.don_l, &t::ut(d)),
                _ => {}
            }
            Tx::Ok { msgs: vec![], attrs: vec![], hooks: vec![] }
        }
        Op::AddValidator { sender, which } => {
            let s = who_addr(&who, sender);
            let v = match which {
                0 => who.val3.clone(),
                1 => who.val1.clone(), // duplicate
                2 => who.n1.clone(),   // wrong prefix
                4 => format!("{}\u{e9}{}", &who.vp[..who.vp.len() - 1], &who.val3[who.vp.len() + 1..]),
                // checksum-valid address of a longer prefix that contains the bech32 separator: `<validator prefix>1x` (bech32 splits at the LAST '1')
                5 => crate::addr::addr(&format!("{}1x", who.vp), 9, 20),
                6 => crate::addr::addr(&format!("{}1", who.vp), 9, 20),
                _ => "garbage".to_string(),
            };
            b.chain.execute(&s, &[], ExecuteMsg::AddValidator { new_validator: v })
        }
        Op::RemoveValidator { sender, which } => {
            let s = who_addr(&who, sender);
            let v = match which {
                0 => who.val1.clone(),
                1 => who.val3.clone(), // unknown
                2 => who.n1.clone(),
                4 => format!("{}\u{e9}{}", &who.vp[..who.vp.len() - 1], &who.val1[who.vp.len() + 1..]),
                _ => "garbage".to_string(),
            };
            b.chain.execute(&s, &[], ExecuteMsg::RemoveValidator { validator: v })
        }
        Op::TransferOwnership { sender, to } => {
            let s = who_addr(&who, sender);
            b.chain.execute(&s, &[], ExecuteMsg::TransferOwnership { new_owner: who_addr(&who, to) })
        }
        Op::AcceptOwnership { sender } => {
            let s = who_addr(&who, sender);
            b.chain.execute(&s, &[], ExecuteMsg::AcceptOwnership {})
        }
        Op::RevokeOwnership { sender } => {
            let s = who_addr(&who, sender);
            b.chain.execute(&s, &[], ExecuteMsg::RevokeOwnershipTransfer {})
        }
        Op::UpdateConfig { sender, sections } => {
            let s = who_addr(&who, sender);
            let msg = crate::cfgops::update_msg(&who, *sections, &mut |n| input(n, false));
            b.chain.execute(&s, &[], msg)
        }
        Op::SetTreasury { on } => {
            let rate = input("ucfee", false);
            let fee = staking::types::UnsafeProtocolFeeConfig { dao_treasury_fee: rate, treasury_address: if *on { Some(who.treasury.clone()) } else { None } };
            b.chain.execute(&who.admin.clone(), &[], ExecuteMsg::UpdateConfig { native_chain_config: None, protocol_chain_config: None, protocol_fee_config: Some(fee), monitors: None, batch_period: None })
        }
    };
    let post = scen::snap(&b.chain);
    // ghost updates from observations
    if let Tx::Ok { msgs, .. } = &tx {
        match op {
            Op::Withdraw { sender, batch } => {
                let s = who_addr(&who, sender);
                let mut paid = "0".to_string();
                for m in msgs {
                    if let Emitted::Send { to, coins, .. } = m {
                        if *to == s {
                            for (d, a) in coins {
                                if d == addr::NATIVE_DENOM {
                                    paid = t::add(&paid, a);
                                }
                            }
                        }
                    }
                }
                let own = pre.reqs.get(&(*batch, s.clone())).cloned().unwrap_or_else(|| "0".into());
                let p0 = b.ghost.paid.get(batch).cloned().unwrap_or_else(|| "0".into());
                b.ghost.paid.insert(*batch, t::add(&p0, &paid));
                let w0 = b.ghost.wd.get(batch).cloned().unwrap_or_else(|| "0".into());
                b.ghost.wd.insert(*batch, t::add(&w0, &own));
                *b.ghost.wcount.entry(*batch).or_insert(0) += 1;
            }
            Op::Stake { .. } => {
                b.ghost.swept = t::add(&b.ghost.swept, &t::sub(&post.fees, &pre.fees));
                let paid = inputs.iter().find(|(n, _)| n.ends_with("amt")).map(|x| x.1.clone()).unwrap_or_else(|| "0".into());
                for m in msgs {
                    if let Emitted::Mint { amount, .. } = m {
                        b.last_stake = Some((paid.clone(), amount.clone()));
                    }
                }
            }
            Op::Recover { .. } => {
                for (seq, _) in pre.packets.iter().filter(|(k, _)| !post.packets.contains_key(k)) {
                    if let Some(p) = b.chain.w.packets.iter_mut().find(|p| p.seq == *seq) {
                        if p.state == PState::Refunded {
                            p.state = PState::Resent;
                        }
                    }
                }
            }
            Op::ReceiveUnstaked { batch, .. } => {
                b.ghost.paid.entry(*batch).or_insert_with(|| "0".into());
            }
            _ => {}
        }
        // new batches start with empty ghosts
        for id in post.batches.keys() {
            b.ghost.wd.entry(*id).or_insert_with(|| "0".into());
            b.ghost.wcount.entry(*id).or_insert(0);
        }
    }
    StepOut { op: Some(op.clone()), pre, post, tx, gpre, wpre, inputs, now }
}

// ---------------------------------------------------------------------------------------------
// obligations
// ---------------------------------------------------------------------------------------------

pub struct Filter {
    pub props: BTreeSet<String>,
}
impl Filter {
    pub fn want(&self, label: &str) -> bool {
        self.props.is_empty() || self.props.contains(&label[..3.min(label.len())])
    }
}

pub fn prove(f: &Filter, label: &str, c: T) {
    if f.want(label) {
        symcore::prove(label, c);
    }
}
pub fn claim(f: &Filter, label: &str, c: bool) {
    if f.want(label) {
        symcore::prove(label, if c { "true".into() } else { "false".into() });
    }
}

/// `a == b` for pairs of terms, decided by the solver (not syntactically)
pub fn prove_same(f: &Filter, label: &str, pairs: &[(&T, &T)]) {
    let cs: Vec<T> = pairs.iter().map(|(a, b)| t::eq(a, b)).collect();
    prove(f, label, t::and(&cs));
}

fn opt_pair<'a>(a: &'a Option<T>, b: &'a Option<T>, out: &mut Vec<T>) -> bool {
    match (a, b) {
        (Some(x), Some(y)) => {
            out.push(t::eq(x, y));
            true
        }
        (None, None) => true,
        _ => false,
    }
}

/// All requests except `skip` are unchanged (same keys; amounts equal for the solver).
pub fn reqs_same(f: &Filter, label: &str, pre: &Snap, post: &Snap, skip: Option<&(u64, String)>) {
    let mut cs = vec![];
    let mut keys_ok = true;
    for (k, v) in &pre.reqs {
        if Some(k) == skip {
            continue;
        }
        match post.reqs.get(k) {
            Some(w) => cs.push(t::eq(v, w)),
            None => keys_ok = false,
        }
    }
    for k in post.reqs.keys() {
        if Some(k) != skip && !pre.reqs.contains_key(k) {
            keys_ok = false;
        }
    }
    if keys_ok {
        prove(f, label, t::and(&cs));
    } else {
        claim(f, label, false);
    }
}

/// The tracked transfers except `skip` are unchanged.
pub fn packets_same(f: &Filter, label: &str, pre: &Snap, post: &Snap, skip: &[u64]) {
    let mut cs = vec![];
    let mut ok = true;
    for (k, v) in &pre.packets {
        if skip.contains(k) {
            continue;
        }
        match post.packets.get(k) {
            Some(x) if x.0 == v.0 && x.2 == v.2 && x.3 == v.3 => cs.push(t::eq(&x.1, &v.1)),
            _ => ok = false,
        }
    }
    if ok {
        prove(f, label, t::and(&cs));
    } else {
        claim(f, label, false);
    }
}

fn transfers(msgs: &[Emitted]) -> Vec<&Emitted> {
    msgs.iter().filter(|m| matches!(m, Emitted::Transfer { .. })).collect()
}
fn sends(msgs: &[Emitted]) -> Vec<&Emitted> {
    msgs.iter().filter(|m| matches!(m, Emitted::Send { .. })).collect()
}
fn posts(msgs: &[Emitted]) -> Vec<&Emitted> {
    msgs.iter().filter(|m| matches!(m, Emitted::OraclePost { .. })).collect()
}

/// Rates the oracle must see for totals (n, l): atomics of `Decimal::from_ratio`.
pub fn rate_terms(n: &str, l: &str) -> (T, T) {
    let red = t::ite(&t::eq(l, "0"), "0", &t::mulratio(n, t::E18, l));
    let pur = t::ite(&t::eq(l, "0"), "0", &t::mulratio(l, t::E18, n));
    (red, pur)
}

/// Extracts the atomics term of a decimal printed by the contract (placeholder or literal).
pub fn decimal_atomics(s: &str) -> Option<T> {
    if let Some(h) = symcore::parse_placeholder_dec(s) {
        return Some(symcore::term(h));
    }
    // literal: whole[.frac] with up to 18 fractional digits
    let mut it = s.split('.');
    let whole: u128 = it.next()?.parse().ok()?;
    let frac = it.next().unwrap_or("");
    if frac.len() > 18 || it.next().is_some() || !frac.chars().all(|c| c.is_ascii_digit()) {
        return None;
    }
    let mut f = frac.to_string();
    while f.len() < 18 {
        f.push('0');
    }
    let fv: u128 = if f.is_empty() { 0 } else { f.parse().ok()? };
    Some(whole.checked_mul(1_000_000_000_000_000_000)?.checked_add(fv)?.to_string())
}

pub struct Ctx<'a> {
    pub f: &'a Filter,
    pub who: &'a Who,
    pub miniwasm: bool,
}

/// The callback concerns a transfer that was sent through a channel that is no longer the configured one and the
/// contract ignored it (its record did not change although the chain delivered / refunded the transfer).
pub fn channel_orphan(b: &Built, op: &Op, s: &StepOut) -> bool {
    if let Op::Ibc { seq, .. } = op {
        if let Some(p) = b.chain.w.packets.iter().find(|p| p.seq == *seq) {
            let unchanged = s.pre.packets.get(seq).map(|x| (&x.1, &x.3)) == s.post.packets.get(seq).map(|x| (&x.1, &x.3)) && s.pre.packets.contains_key(seq);
            return p.channel != s.pre.cfg.protocol_chain_config.ibc_channel_id && unchanged;
        }
    }
    false
}

/// Known finding F-C07-channel-change, second manifestation: packet sequences are per channel, the tracking table is keyed by
/// the sequence alone. A transfer submitted after a channel change can be given the sequence of a transfer of the previous
/// channel that is still tracked (in flight or refundable); its record then replaces the older one.
pub fn seq_collision(b: &Built, s: &StepOut) -> Option<u64> {
    if let Tx::Ok { msgs, .. } = &s.tx {
        for m in transfers(msgs) {
            if let Emitted::Transfer { seq: Some(q), channel, .. } = m {
                if b.chain.w.packets.iter().any(|p| p.seq == *q && p.channel != *channel && p.sender == b.chain.who.contract && matches!(p.state, PState::Sent | PState::Refunded)) {
                    return Some(*q);
                }
            }
        }
    }
    None
}

/// The history cannot be judged against the ledgers any further (a known finding was hit and reported under its own label).
pub fn history_broken(b: &Built, op: &Op, s: &StepOut) -> bool {
    channel_orphan(b, op, s) || seq_collision(b, s).is_some()
}

/// Invariant after the step (proved) + frame conditions common to all operations.
pub fn post_inv(cx: &Ctx, b: &Built, s: &StepOut) {
    if let Some(op) = s.op.as_ref() {
        if channel_orphan(b, op, s) {
            // reported once by `post_op` under its own label; the ledger invariants necessarily fail after it
            return;
        }
    }
    if let Some(q) = seq_collision(b, s) {
        // what the unchanged code does here is defined and checked: the new transfer is recorded exactly (sequence, amount,
        // denom, receiver, Sent) -- the older record of the same sequence is lost, which is the known finding
        if let Tx::Ok { msgs, .. } = &s.tx {
            check_new_packets_tracked(cx, s, msgs);
            for m in transfers(msgs) {
                if let Emitted::Transfer { seq: Some(sq), amount, .. } = m {
                    if let Some((_, a, _, st)) = s.post.packets.get(sq) {
                        prove(cx.f, "C02:the amount tracked for a newly submitted transfer is exactly the amount that left the contract", t::eq(a, amount));
                        claim(cx.f, "C02:a newly submitted transfer is tracked as in flight, not as refundable", *st == PacketLifecycleStatus::Sent);
                        prove(cx.f, "C01:the amount tracked for a newly submitted transfer is exactly the amount that left the contract", t::eq(a, amount));
                    }
                }
            }
        }
        claim(cx.f, "C07:a transfer submitted after a channel change never takes over the record of a still-tracked transfer of the previous channel", q == u64::MAX);
        return;
    }
    if !s.tx.is_ok() {
        // rolled back: storage must be byte-identical (the world model restores it; this checks the
        // handlers themselves for the callbacks that are not wrapped by `tx`)
        claim(cx.f, "C08:rollback leaves storage byte-identical", s.pre.raw == s.post.raw);
        return;
    }
    // C18: the contract keeps its records under the namespaces of the deployed layout
    let ns = crate::world::namespaces(&s.post.raw);
    claim(cx.f, "C18:every stored record lives under a namespace of the deployed storage layout", ns.iter().all(|n| crate::world::DEPLOYED_NAMESPACES.contains(&n.as_str())));
    let sn = &s.post;
    for c in scen::inv_structural(sn, &b.chain, &b.ghost) {
        let p = &c[..2];
        let prop = match p {
            "I4" => "C06",
            "I5" => "C05",
            _ => "C07",
        };
        claim(cx.f, &format!("{prop}:{c}"), false);
        // C01 counts a refunded transfer as "awaiting re-send": that presupposes a record that lets it be re-sent
        if c.contains("world state Refunded vs record status") || (c.contains("has no record") && c.contains("Refunded")) {
            claim(cx.f, "C01:every refunded transfer is recorded as refundable, so that it is awaiting re-send and not stranded", false);
        }
    }
    for (label, c) in scen::inv_terms(sn, &b.chain, &b.ghost) {
        prove(cx.f, &label, c);
    }
    // C06 frame: expected amounts of non-pending batches never change; status only moves forward
    for (id, pb) in &s.pre.batches {
        match sn.batches.get(id) {
            None => claim(cx.f, &format!("C06:batch {id} disappeared"), false),
            Some(nb) => {
                if let Some(e) = &pb.expected {
                    match &nb.expected {
                        Some(e2) => prove(cx.f, &format!("C06:expected amount of batch {id} unchanged"), t::eq(e, e2)),
                        None => claim(cx.f, &format!("C06:expected amount of batch {id} erased"), false),
                    }
                }
                let rank = |st: &BatchStatus| match st {
                    BatchStatus::Pending => 0,
                    BatchStatus::Submitted => 1,
                    BatchStatus::Received => 2,
                };
                let (r0, r1) = (rank(&pb.status), rank(&nb.status));
                claim(cx.f, &format!("C06:batch {id} status moves only Pending->Submitted->Received"), r1 == r0 || r1 == r0 + 1);
            }
        }
    }
}

fn check_transfer_shape(cx: &Ctx, m: &Emitted, now: u64, label: &str, configured_channel: &str) {
    if let Emitted::Transfer { sender, channel, port, memo, timeout_ns, timeout_height_set, sub, seq, .. } = m {
        claim(cx.f, &format!("C07:{label} transfer is a reply-always sub-message"), matches!(sub, Some((_, ReplyOn::Always))));
        claim(cx.f, &format!("C07:{label} transfer sender is the contract"), *sender == cx.who.contract);
        claim(cx.f, &format!("C07:{label} transfer uses the configured channel and port"), channel == configured_channel && port == "transfer");
        claim(cx.f, &format!("C07:{label} transfer memo names the contract as ibc_callback"), *memo == format!("{{\"ibc_callback\":\"{}\"}}", cx.who.contract));
        claim(cx.f, &format!("C07:{label} transfer carries a future timeout"), *timeout_ns > now * 1_000_000_000 && !*timeout_height_set);
        claim(cx.f, &format!("C07:{label} transfer got a sequence"), seq.is_some());
    }
}

/// After a successful transaction every transfer it submitted is tracked as `Sent` with its exact data.
fn check_new_packets_tracked(cx: &Ctx, s: &StepOut, msgs: &[Emitted]) {
    for m in transfers(msgs) {
        if let Emitted::Transfer { seq: Some(q), denom, amount, receiver, .. } = m {
            match s.post.packets.get(q) {
                None => claim(cx.f, &format!("C07:new transfer {q} is recorded"), false),
                Some((d, a, r, st)) => {
                    claim(cx.f, &format!("C07:new transfer {q} recorded denom/receiver/status"), d == denom && r == receiver && *st == PacketLifecycleStatus::Sent);
                    prove(cx.f, &format!("C07:new transfer {q} recorded amount"), t::eq(a, amount));
                }
            }
        }
    }
    claim(cx.f, "C07:no pending reply left after the transaction", s.post.waiting.is_empty());
}

fn check_oracle(cx: &Ctx, s: &StepOut, msgs: &[Emitted], must_post: bool) {
    let ps = posts(msgs);
    let oracle = s.pre.cfg.protocol_chain_config.oracle_address.as_ref().map(|a| a.to_string());
    match oracle {
        None => claim(cx.f, "C15:no oracle configured => nothing posted", ps.is_empty()),
        Some(o) => {
            if must_post {
                claim(cx.f, "C15:exactly one oracle post", ps.len() == 1);
            } else {
                claim(cx.f, "C15:at most one oracle post", ps.len() <= 1);
            }
            for p in ps {
                if let Emitted::OraclePost { contract, payload, funds, .. } = p {
                    claim(cx.f, "C15:post goes to the configured oracle without funds", *contract == o && *funds == 0);
                    let v: Result<serde_json::Value, _> = serde_json::from_str(payload);
                    match v {
                        Err(_) => claim(cx.f, "C15:oracle payload is JSON", false),
                        Ok(v) => {
                            let pr = &v["post_rates"];
                            claim(cx.f, "C15:payload denom is the LST denom", pr["denom"].as_str() == Some(&s.pre.cfg.liquid_stake_token_denom));
                            let (red, pur) = rate_terms(&s.post.n, &s.post.l);
                            let got_red = pr["redemption_rate"].as_str().and_then(decimal_atomics);
                            let got_pur = pr["purchase_rate"].as_str().and_then(decimal_atomics);
                            match (got_red, got_pur) {
                                (Some(a), Some(b)) => {
                                    prove(cx.f, "C15:posted redemption rate is the post-transaction rate", t::eq(&a, &red));
                                    prove(cx.f, "C15:posted purchase rate is the post-transaction rate", t::eq(&b, &pur));
                                }
                                _ => claim(cx.f, "C15:posted rates are decimals", false),
                            }
                        }
                    }
                }
            }
        }
    }
}

/// Operation-specific post-conditions (DESIGN section 5).
pub fn post_op(cx: &Ctx, b: &Built, op: &Op, s: &StepOut) {
    let who = cx.who;
    let f = cx.f;
    let lst = who.lst_denom();
    let pre = &s.pre;
    let post = &s.post;
    let input = |name: &str| -> T { s.inputs.iter().find(|(n, _)| n.ends_with(name)).map(|x| x.1.clone()).unwrap_or_else(|| "0".into()) };
    let stopped = pre.cfg.stopped;
    // C10: while halted the six value-moving messages fail
    let value_moving = matches!(op, Op::Stake { .. } | Op::Unstake { .. } | Op::Submit { .. } | Op::Withdraw { .. } | Op::Rewards { .. } | Op::ReceiveUnstaked { .. });
    if stopped && value_moving {
        claim(f, "C10:halted contract refuses value-moving message", !s.tx.is_ok());
        claim(f, "C10:refused message leaves storage byte-identical", pre.raw == post.raw);
    }
    // C08 / C12: the admin, the nominee and the lock are touched by the three ownership messages only, so the account the
    // nomination obligations establish is still the nominated one when an acceptance is judged against it
    if !matches!(op, Op::TransferOwnership { .. } | Op::RevokeOwnership { .. } | Op::AcceptOwnership { .. }) {
        claim(f, "C12:only ownership messages touch the admin, the nominee and the lock", post.admin == pre.admin && post.pending_owner == pre.pending_owner && post.min_time == pre.min_time);
    }
    // C17: the open requests reported by the UnstakeRequests query follow the history of unstakes and withdrawals:
    // a successful unstake adds its amount to the caller's request in the pending batch, a successful withdrawal
    // closes exactly the caller's request in that batch, nothing else touches the set
    if cx.f.want("C17") && cx.f.props.contains("C17") {
        let mut want: BTreeMap<(u64, String), T> = pre.reqs.clone();
        if s.tx.is_ok() {
            match op {
                Op::Unstake { sender, .. } => {
                    let k = (pre.pending_id, who_addr(who, sender));
                    let old = want.get(&k).cloned().unwrap_or_else(|| "0".into());
                    want.insert(k, t::add(&old, &input("uns")));
                }
                Op::UnstakeMinted { .. } => {
                    // amount defined by the preceding stake: take the stored request as the amount, keys still checked
                    for (k, v) in &post.reqs {
                        if k.0 == pre.pending_id {
                            want.insert(k.clone(), v.clone());
                        }
                    }
                }
                Op::Withdraw { sender, batch } => {
                    want.remove(&(*batch, who_addr(who, sender)));
                }
                _ => {}
            }
        }
        for u in [who.u1.clone(), who.u2.clone(), who.u3.clone()] {
            let exp: Vec<(u64, T)> = want.iter().filter(|((_, usr), _)| *usr == u).map(|((b, _), a)| (*b, a.clone())).collect();
            let env = b.chain.env.clone();
            let q = symcore::catch(|| staking::contract::query(b.chain.deps.as_ref(), env, staking::msg::QueryMsg::UnstakeRequests { user: cosmwasm_std::Addr::unchecked(u.clone()) }).map_err(|e| e.to_string()));
            match q {
                Ok(Ok(bin)) => {
                    let r: Vec<staking::state::UnstakeRequest> = cosmwasm_std::from_json(&bin).unwrap();
                    let mut got: Vec<(u64, T)> = r.iter().map(|x| (x.batch_id, t::ut(x.amount))).collect();
                    got.sort_by_key(|x| x.0);
                    claim(f, "C17:after every operation UnstakeRequests lists exactly the user's open requests (unstakes add, withdrawals close)", got.iter().map(|x| x.0).collect::<Vec<_>>() == exp.iter().map(|x| x.0).collect::<Vec<_>>() && r.iter().all(|x| x.user == u));
                    if got.len() == exp.len() {
                        let cs: Vec<T> = got.iter().zip(exp.iter()).map(|(g, w)| t::eq(&g.1, &w.1)).collect();
                        prove(f, "C17:after every operation UnstakeRequests reports the current amounts", t::and(&cs));
                    }
                }
                _ => claim(f, "C17:UnstakeRequests answers", false),
            }
        }
    }
    // C16
    if let Tx::Panic(p) = &s.tx {
        prove(f, &format!("C16:no panic [{}]", panic_key(p)), "false".into());
    } else {
        claim(f, "C16:entry point returned a result or a typed error", true);
    }
    // C02 / C03: the chain never has to reject a message of an entitled operation for lack of funds
    if let Tx::Reject(why) = &s.tx {
        if why.contains("insufficient balance") {
            let prop = if why.contains(addr::NATIVE_DENOM) { "C02" } else { "C03" };
            prove(f, &format!("{prop}:contract balance covers the payout [{}]", why.split(':').next().unwrap_or("")), "false".into());
        } else if !why.contains("submission failed") && !why.contains("reply error") {
            prove(f, &format!("C19:chain accepts every emitted message [{why}]"), "false".into());
        }
        if why.contains("submission failed") || why.contains("reply error") {
            claim(f, "C07:failed transfer submission rolls back the whole operation", pre.raw == post.raw);
        }
    }
    let msgs: &[Emitted] = match &s.tx {
        Tx::Ok { msgs, .. } => msgs,
        _ => &[],
    };
    // atomicity: only IBC transfers may carry a reply hook; any other message must be a plain message whose
    // failure reverts the whole transaction (a failure-tolerant payment could be skipped while the books say it was made)
    if let Tx::Ok { msgs, hooks, .. } = &s.tx {
        for (m, h) in msgs.iter().zip(hooks.iter()) {
            if !matches!(m, Emitted::Transfer { .. }) && h.is_some() {
                let prop = if matches!(op, Op::Rewards { .. } | Op::FeeWithdraw { .. }) { "C11" } else if matches!(op, Op::Withdraw { .. }) { "C02" } else { "C03" };
                claim(f, &format!("{prop}:payments and token-factory messages are plain messages (their failure reverts the operation)"), false);
            }
        }
    }
    match op {
        Op::Stake { sender, mint_to, flag, expected, funds, .. } => {
            let a = input("amt");
            let sweep = t::and(&[t::eq(&pre.l, "0"), t::ne(&pre.n, "0")]);
            let n_eff = t::ite(&sweep, "0", &pre.n);
            let m_spec = t::ite(&t::eq(&n_eff, "0"), &a, &t::mulratio(&pre.l, &a, &n_eff));
            let min = t::ut(pre.cfg.protocol_chain_config.minimum_liquid_stake_amount);
            if s.tx.is_ok() {
                claim(f, "C08:stake needs the staked-asset coin", *funds == Funds::Native);
                let mints: Vec<&Emitted> = msgs.iter().filter(|m| matches!(m, Emitted::Mint { .. })).collect();
                claim(f, "C19:stake emits exactly one mint", mints.len() == 1);
                let mut m_term = "0".to_string();
                if let Some(Emitted::Mint { url, sender: ms, denom, amount, to, canonical }) = mints.first() {
                    m_term = amount.clone();
                    let want = if cx.miniwasm { "/miniwasm.tokenfactory.v1.MsgMint" } else { "/osmosis.tokenfactory.v1beta1.MsgMint" };
                    claim(f, "C19:mint type URL belongs to the target chain's token factory", url == want);
                    claim(f, "C19:mint sender and holder are the contract, denom is factory/<contract>/<sub>", *ms == who.contract && *to == who.contract && *denom == lst);
                    claim(f, "C19:mint bytes are canonical protobuf", *canonical);
                }
                prove(f, "C04:minted = floor(amount*totalLST/totalStaked) (1:1 when nothing staked)", t::eq(&m_term, &m_spec));
                prove(f, "C19:mint message carries exactly the amount added to the LST total", t::eq(&t::add(&pre.l, &m_term), &post.l));
                prove(f, "C04:minted amount is never zero", t::gt(&m_term, "0"));
                prove(f, "C04:amount at or above the configured minimum", t::ge(&a, &min));
                if *expected {
                    prove(f, "C04:minted at least expected_mint_amount", t::ge(&m_term, &input("exp")));
                }
                prove(f, "C04:stake does not lower the redemption rate of existing holders", t::implies(&t::gt(&pre.l, "0"), &t::ge(&t::mul(&post.n, &pre.l), &t::mul(&pre.n, &post.l))));
                prove(f, "C01:stake adds exactly the paid amount to the staked total", t::eq(&post.n, &t::add(&n_eff, &a)));
                prove(f, "C02:ownerless stake swept to fees only when no LST exists", t::eq(&post.fees, &t::add(&pre.fees, &t::sub(&pre.n, &n_eff))));
                prove(f, "C03:LST total grows by exactly the minted amount", t::eq(&post.l, &t::add(&pre.l, &m_term)));
                prove(f, "C11:stake leaves the reward counter alone", t::eq(&post.rewards, &pre.rewards));
                // delivery
                let tr = transfers(msgs);
                let native_tr: Vec<&&Emitted> = tr.iter().filter(|m| matches!(m, Emitted::Transfer { denom, .. } if denom == addr::NATIVE_DENOM)).collect();
                claim(f, "C01:exactly one staked-asset transfer to the staker", native_tr.len() == 1);
                if let Some(Emitted::Transfer { receiver, amount, .. }) = native_tr.first().map(|x| **x) {
                    claim(f, "C01:stake transfer goes to the configured staker", *receiver == pre.cfg.native_chain_config.staker_address.to_string());
                    prove(f, "C01:stake forwards exactly the paid amount", t::eq(amount, &a));
                }
                for m in &tr {
                    check_transfer_shape(cx, m, s.now, "stake", &pre.cfg.protocol_chain_config.ibc_channel_id);
                }
                let recipient = match mint_to {
                    MintTo::None => who_addr(who, sender),
                    MintTo::Proto => who.u2.clone(),
                    MintTo::Native => who.n1.clone(),
                    MintTo::Invalid | MintTo::Multi => String::new(),
                };
                let same = who.pp == who.np;
                let to_native = match mint_to {
                    MintTo::Native => !same || flag.unwrap_or(false),
                    MintTo::Invalid | MintTo::Multi => false,
                    _ => same && flag.unwrap_or(false),
                };
                let lst_sends: Vec<&Emitted> = sends(msgs).into_iter().filter(|m| matches!(m, Emitted::Send { coins, .. } if coins.iter().any(|c| c.0 == lst))).collect();
                let lst_tr: Vec<&&Emitted> = tr.iter().filter(|m| matches!(m, Emitted::Transfer { denom, .. } if *denom == lst)).collect();
                if to_native {
                    claim(f, "C03:native-chain recipient gets one IBC transfer and no bank send", lst_tr.len() == 1 && lst_sends.is_empty());
                    if let Some(Emitted::Transfer { receiver, amount, .. }) = lst_tr.first().map(|x| **x) {
                        claim(f, "C03:LST transfer goes to the chosen recipient", *receiver == recipient);
                        prove(f, "C03:IBC delivery carries exactly the minted amount", t::eq(amount, &m_term));
                        prove(f, "C04:the recipient is delivered exactly floor(amount*totalLST/totalStaked) [ibc]", t::eq(amount, &m_spec));
                    }
                } else {
                    claim(f, "C03:protocol-chain recipient gets one bank send and no IBC transfer", lst_sends.len() == 1 && lst_tr.is_empty());
                    if let Some(Emitted::Send { to, coins, from, .. }) = lst_sends.first() {
                        claim(f, "C03:bank send goes from the contract to the chosen recipient only", *to == recipient && *from == who.contract && coins.len() == 1);
                        prove(f, "C03:bank delivery carries exactly the minted amount", t::eq(&coins[0].1, &m_term));
                        prove(f, "C04:the recipient is delivered exactly floor(amount*totalLST/totalStaked) [bank]", t::eq(&coins[0].1, &m_spec));
                    }
                }
                claim(f, "C03:stake emits no other message", msgs.len() == 1 + 1 + 1 + posts(msgs).len());
                check_new_packets_tracked(cx, s, msgs);
                check_oracle(cx, s, msgs, true);
            } else if let Tx::Err(e) = &s.tx {
                // error exactly for the documented reasons (valid inputs only)
                let valid = !stopped && *funds == Funds::Native && !matches!(mint_to, MintTo::Invalid | MintTo::Multi) && !(matches!(sender, P::C32 | P::HookStaker | P::HookCollector | P::Contract | P::Treasury) && *mint_to == MintTo::None);
                if valid {
                    let mut reasons = vec![t::lt(&a, &min), t::eq(&m_spec, "0"), t::eq(&a, "0")];
                    if *expected {
                        reasons.push(t::lt(&m_spec, &input("exp")));
                    }
                    prove(f, &format!("C04:stake refused only below minimum / zero mint / below expectation [{}]", short(e)), t::or(&reasons));
                }
            }
        }
        Op::Unstake { sender, funds } => {
            let u = input("uns");
            let user = who_addr(who, sender);
            if s.tx.is_ok() {
                claim(f, "C08:unstake needs the LST coin", *funds == Funds::Lst);
                let pid = pre.pending_id;
                let old = pre.reqs.get(&(pid, user.clone())).cloned();
                let new = post.reqs.get(&(pid, user.clone())).cloned().unwrap_or_else(|| "0".into());
                prove(f, "C05:repeated unstakes accumulate into one request", t::eq(&new, &t::add(old.as_deref().unwrap_or("0"), &u)));
                prove(f, "C05:pending batch total grows by the unstaked amount", t::eq(&post.batches[&pid].total, &t::add(&pre.batches[&pid].total, &u)));
                claim(f, "C05:request counter counts distinct requesters", post.batches[&pid].count == Some(pre.batches[&pid].count.unwrap_or(0) + if old.is_none() { 1 } else { 0 }));
                reqs_same(f, "C05:other requests untouched by unstake", pre, post, Some(&(pid, user.clone())));
                prove_same(f, "C01:unstake leaves the totals alone", &[(&post.n, &pre.n), (&post.l, &pre.l), (&post.fees, &pre.fees), (&post.rewards, &pre.rewards)]);
                claim(f, "C03:unstake emits no message", msgs.is_empty());
            }
        }
        Op::Submit { .. } => {
            let pid = pre.pending_id;
            let pb = &pre.batches[&pid];
            let nonempty = pre.reqs.keys().any(|(bid, _)| *bid == pid);
            let due = pb.next.map(|d| s.now >= d).unwrap_or(false);
            if s.tx.is_ok() {
                claim(f, "C06:submit only when the pending batch is non-empty and due on a running contract", nonempty && due && !stopped);
                let e_spec = t::ite(&t::eq(&pb.total, "0"), "0", &t::mulratio(&pre.n, &pb.total, &pre.l));
                let nb = &post.batches[&pid];
                let e = nb.expected.clone().unwrap_or_else(|| "0".into());
                prove(f, "C04:set aside = floor(totalStaked*batchLST/totalLST)", t::eq(&e, &e_spec));
                prove(f, "C01:submit subtracts exactly the recorded expected amount", t::eq(&post.n, &t::sub(&pre.n, &e)));
                prove(f, "C03:submit reduces the LST total by the batch total", t::eq(&post.l, &t::sub(&pre.l, &pb.total)));
                prove(f, "C04:submit does not lower the redemption rate of remaining holders", t::implies(&t::gt(&post.l, "0"), &t::ge(&t::mul(&post.n, &pre.l), &t::mul(&pre.n, &post.l))));
                claim(f, "C06:submitted batch becomes Submitted", nb.status == BatchStatus::Submitted);
                prove_same(f, "C06:submitted batch keeps its total", &[(&nb.total, &pb.total)]);
                claim(f, "C06:submitted batch is due one unbonding period later", nb.next == Some(s.now + pre.cfg.native_chain_config.unbonding_period));
                match post.batches.get(&(pid + 1)) {
                    None => claim(f, "C06:new pending batch opened", false),
                    Some(np) => {
                        claim(f, "C06:new pending batch has the next id, is empty and due one batch period later", post.pending_id == pid + 1 && np.status == BatchStatus::Pending && np.count == Some(0) && np.next == Some(s.now + pre.cfg.batch_period) && np.expected.is_none() && np.received.is_none());
                    }
                }
                let burns: Vec<&Emitted> = msgs.iter().filter(|m| matches!(m, Emitted::Burn { .. })).collect();
                claim(f, "C19:submit emits exactly one burn", burns.len() == 1);
                if let Some(Emitted::Burn { url, sender, denom, amount, from, canonical }) = burns.first() {
                    let want = if cx.miniwasm { "/miniwasm.tokenfactory.v1.MsgBurn" } else { "/osmosis.tokenfactory.v1beta1.MsgBurn" };
                    claim(f, "C19:burn type URL belongs to the target chain's token factory", url == want);
                    claim(f, "C19:burn sender and holder are the contract, denom is the LST", *sender == who.contract && *from == who.contract && *denom == lst);
                    claim(f, "C19:burn bytes are canonical protobuf", *canonical);
                    prove(f, "C03:submit burns exactly the batch total", t::eq(amount, &pb.total));
                    prove(f, "C19:burn message carries exactly the batch total", t::eq(amount, &pb.total));
                }
                claim(f, "C03:submit emits no other message", msgs.len() == 1 + posts(msgs).len());
                if let Some((user, paid, minted)) = &b.roundtrip {
                    if let Some(own) = pre.reqs.get(&(pid, user.clone())) {
                        // stake `paid`, unstake the minted amount at once, submit (alone or together with other requests):
                        // the share of the set-aside amount that belongs to that request never exceeds what was paid in
                        prove(f, "C04:staking then immediately unstaking never returns more than was paid in", t::implies(&t::eq(own, minted), &t::le(&t::mulratio(&e, own, &pb.total), paid)));
                    }
                }
                reqs_same(f, "C05:submit leaves requests untouched", pre, post, None);
                if let Some(np) = post.batches.get(&(pid + 1)) {
                    prove(f, "C06:new pending batch starts with a zero total", t::eq(&np.total, "0"));
                }
                check_oracle(cx, s, msgs, true);
            } else if let Tx::Err(e) = &s.tx {
                if !stopped && nonempty && due {
                    prove(f, &format!("C06:submit of a non-empty due batch succeeds for any caller [{}]", short(e)), "false".into());
                }
            }
        }
        Op::Withdraw { sender, batch } => {
            let user = who_addr(who, sender);
            let req = pre.reqs.get(&(*batch, user.clone())).cloned();
            if s.tx.is_ok() {
                let pb = pre.batches.get(batch);
                claim(f, "C05:withdraw only from a Received batch with an own request", pb.map(|b| b.status == BatchStatus::Received).unwrap_or(false) && req.is_some());
                if let (Some(pb), Some(a)) = (pb, req.clone()) {
                    let r = pb.received.clone().unwrap_or_else(|| "0".into());
                    let spec = t::mulratio(&r, &a, &pb.total);
                    let ss = sends(msgs);
                    claim(f, "C08:withdraw pays exactly one recipient: the caller", ss.len() == 1 && matches!(ss[0], Emitted::Send { to, from, coins, .. } if *to == user && *from == who.contract && coins.len() == 1 && coins[0].0 == addr::NATIVE_DENOM));
                    if let Some(Emitted::Send { coins, .. }) = ss.first() {
                        prove(f, "C05:payout = floor(received*ownRequest/batchTotal)", t::eq(&coins[0].1, &spec));
                    }
                    claim(f, "C05:claim is consumed", !post.reqs.contains_key(&(*batch, user.clone())));
                    reqs_same(f, "C08:withdraw consumes only the caller's own request", pre, post, Some(&(*batch, user.clone())));
                    let nb = &post.batches[batch];
                    let mut cs = vec![t::eq(&nb.total, &pb.total)];
                    let shape = opt_pair(&nb.received, &pb.received, &mut cs) && opt_pair(&nb.expected, &pb.expected, &mut cs);
                    if shape {
                        prove(f, "C05:withdraw leaves batch total / received / expected untouched", t::and(&cs));
                    } else {
                        claim(f, "C05:withdraw leaves batch total / received / expected untouched", false);
                    }
                }
                prove_same(f, "C01:withdraw leaves the totals alone", &[(&post.n, &pre.n), (&post.l, &pre.l), (&post.fees, &pre.fees), (&post.rewards, &pre.rewards)]);
                claim(f, "C03:withdraw emits only the payout and the oracle post", msgs.len() == 1 + posts(msgs).len() && transfers(msgs).is_empty());
                check_oracle(cx, s, msgs, false);
            } else if let Tx::Err(e) = &s.tx {
                let ok_batch = pre.batches.get(batch).map(|b| b.status == BatchStatus::Received).unwrap_or(false);
                if !stopped && ok_batch && req.is_some() {
                    prove(f, &format!("C05:entitled withdrawal succeeds [{}]", short(e)), "false".into());
                }
            }
        }
        Op::Rewards { sender, funds, .. } => {
            let x = input("rew");
            if let Tx::Err(e) = &s.tx {
                let want = crate::addr::hook_sender(&pre.cfg.protocol_chain_config.ibc_channel_id, pre.cfg.native_chain_config.reward_collector_address.as_str(), &pre.cfg.protocol_chain_config.account_address_prefix);
                if who_addr(who, sender) == want && !stopped {
                    claim(f, "C09:the collector's ibc-hooks account is never refused as unauthorized", !e.starts_with("Unauthorized"));
                }
            }
            if s.tx.is_ok() {
                let want = crate::addr::hook_sender(&pre.cfg.protocol_chain_config.ibc_channel_id, pre.cfg.native_chain_config.reward_collector_address.as_str(), &pre.cfg.protocol_chain_config.account_address_prefix);
                claim(f, "C08:rewards only from the reward collector's ibc-hooks account with the staked asset", who_addr(who, sender) == want && *funds == Funds::Native);
                claim(f, "C09:ReceiveRewards accepts only the ibc-hooks account of the current channel / collector / prefix (independent derivation)", who_addr(who, sender) == want);
                let rate = t::ut(pre.cfg.protocol_fee_config.dao_treasury_fee);
                let fee = t::mulratio(&rate, &x, "100000");
                prove(f, "C11:rewards refused while no LST exists", t::gt(&pre.l, "0"));
                prove(f, "C11:fee never exceeds the reward", t::le(&fee, &x));
                let rest = t::sub(&x, &fee);
                prove(f, "C11:restaked remainder added to the staked total", t::eq(&post.n, &t::add(&pre.n, &rest)));
                prove(f, "C11:reward counter grows by the full reward", t::eq(&post.rewards, &t::add(&pre.rewards, &x)));
                prove(f, "C03:rewards leave the LST total alone", t::eq(&post.l, &pre.l));
                let tr = transfers(msgs);
                claim(f, "C01:rewards forward exactly one transfer to the staker", tr.len() == 1 && matches!(tr[0], Emitted::Transfer { receiver, denom, .. } if *receiver == pre.cfg.native_chain_config.staker_address.to_string() && denom == addr::NATIVE_DENOM));
                if let Some(Emitted::Transfer { amount, .. }) = tr.first() {
                    prove(f, "C01:forwarded amount = reward - fee", t::eq(amount, &rest));
                    prove(f, "C11:fee + restaked = reward", t::eq(&t::add(&fee, amount), &x));
                }
                for m in &tr {
                    check_transfer_shape(cx, m, s.now, "rewards", &pre.cfg.protocol_chain_config.ibc_channel_id);
                }
                let ss = sends(msgs);
                match &pre.cfg.protocol_fee_config.treasury_address {
                    Some(tr_addr) => {
                        claim(f, "C11:fee is paid to the treasury in the same transaction", ss.len() == 1 && matches!(ss[0], Emitted::Send { to, coins, .. } if *to == tr_addr.to_string() && coins.len() == 1 && coins[0].0 == addr::NATIVE_DENOM));
                        if let Some(Emitted::Send { coins, .. }) = ss.first() {
                            prove(f, "C11:treasury receives exactly the fee", t::eq(&coins[0].1, &fee));
                        }
                        prove(f, "C11:withdrawable fee balance unchanged when the fee is paid out", t::eq(&post.fees, &pre.fees));
                    }
                    None => {
                        claim(f, "C11:no bank send without a treasury", ss.is_empty());
                        prove(f, "C11:fee accrues to the withdrawable fee balance", t::eq(&post.fees, &t::add(&pre.fees, &fee)));
                    }
                }
                claim(f, "C03:rewards emit no other message", msgs.len() == tr.len() + ss.len() + posts(msgs).len());
                check_new_packets_tracked(cx, s, msgs);
                check_oracle(cx, s, msgs, true);
            }
        }
        Op::ReceiveUnstaked { sender, batch, funds } => {
            let r = input("rcv");
            if let Tx::Err(e) = &s.tx {
                let want = crate::addr::hook_sender(&pre.cfg.protocol_chain_config.ibc_channel_id, pre.cfg.native_chain_config.staker_address.as_str(), &pre.cfg.protocol_chain_config.account_address_prefix);
                if who_addr(who, sender) == want && !stopped {
                    claim(f, "C09:the staker's ibc-hooks account is never refused as unauthorized", !e.starts_with("Unauthorized"));
                }
            }
            if s.tx.is_ok() {
                let want = crate::addr::hook_sender(&pre.cfg.protocol_chain_config.ibc_channel_id, pre.cfg.native_chain_config.staker_address.as_str(), &pre.cfg.protocol_chain_config.account_address_prefix);
                claim(f, "C08:unstaked tokens only from the staker's ibc-hooks account with the staked asset", who_addr(who, sender) == want && *funds == Funds::Native);
                claim(f, "C09:ReceiveUnstakedTokens accepts only the ibc-hooks account of the current channel / staker / prefix (independent derivation)", who_addr(who, sender) == want);
                let pb = pre.batches.get(batch);
                claim(f, "C06:only a Submitted batch whose unbonding period has elapsed becomes Received", pb.map(|b| b.status == BatchStatus::Submitted && b.next.map(|d| s.now >= d).unwrap_or(false)).unwrap_or(false));
                let nb = &post.batches[batch];
                claim(f, "C06:batch is now Received", nb.status == BatchStatus::Received && nb.next.is_none());
                prove(f, "C02:received amount recorded exactly", t::eq(nb.received.as_deref().unwrap_or("0"), &r));
                claim(f, "C05:receipt leaves the request counter untouched", pb.map(|b| b.count == nb.count).unwrap_or(false));
                if let Some(pb) = pb {
                    prove_same(f, "C05:receipt leaves the batch total untouched", &[(&pb.total, &nb.total)]);
                }
                reqs_same(f, "C05:receipt leaves requests untouched", pre, post, None);
                prove_same(f, "C01:receipt leaves the totals alone", &[(&post.n, &pre.n), (&post.l, &pre.l), (&post.fees, &pre.fees), (&post.rewards, &pre.rewards)]);
                claim(f, "C03:receipt emits no message", msgs.is_empty());
            }
        }
        Op::Recover { sender, paginated, selected, receiver, .. } => {
            let recv = match receiver {
                None => pre.cfg.native_chain_config.staker_address.to_string(),
                Some("self") => who_addr(who, sender),
                Some("staker") => who.staker.clone(),
                Some("n1") => who.n1.clone(),
                Some("n2") => who.n2.clone(),
                Some("proto") => who.u2.clone(),
                Some(o) => o.to_string(),
            };
            let refundable = |st: &PacketLifecycleStatus| *st == PacketLifecycleStatus::AckFailure || *st == PacketLifecycleStatus::TimedOut;
            if s.tx.is_ok() {
                if selected.is_some() {
                    claim(f, "C08:forced packet recovery only for the admin", *sender == P::Admin);
                }
                let removed: Vec<u64> = pre.packets.keys().filter(|k| !post.packets.contains_key(k)).cloned().collect();
                let expect: Vec<u64> = match selected {
                    Some(ids) => {
                        let mut v = ids.clone();
                        v.sort();
                        v.dedup();
                        v
                    }
                    None => {
                        let all: Vec<u64> = pre.packets.iter().filter(|(_, p)| p.2 == recv && refundable(&p.3)).map(|(k, _)| *k).collect();
                        if paginated.unwrap_or(false) {
                            all.into_iter().take(10).collect()
                        } else {
                            all
                        }
                    }
                };
                claim(f, "C07:recovery consumes exactly the refundable transfers of the receiver (first 10 when paginated)", removed == expect && !removed.is_empty());
                if selected.is_none() {
                    claim(f, "C07:in-flight transfers are never re-sent by a permissionless recovery", removed.iter().all(|k| refundable(&pre.packets[k].3)));
                }
                let denoms: BTreeSet<&String> = removed.iter().map(|k| &pre.packets[k].0).collect();
                claim(f, "C07:recovered transfers share one denom and one receiver", denoms.len() == 1 && removed.iter().all(|k| pre.packets[k].2 == recv));
                let total = t::sum(&removed.iter().map(|k| pre.packets[k].1.clone()).collect::<Vec<_>>());
                let tr = transfers(msgs);
                claim(f, "C07:recovery emits exactly one transfer and nothing else", tr.len() == 1 && msgs.len() == 1);
                if let Some(Emitted::Transfer { receiver: r2, denom, amount, seq, .. }) = tr.first() {
                    claim(f, "C07:re-send goes to the same receiver in the same denom", *r2 == recv && denoms.iter().next().map(|d| *d == denom).unwrap_or(false));
                    prove(f, "C07:re-sent amount = sum of the consumed refundable transfers", t::eq(amount, &total));
                    claim(f, "C07:re-sent transfer gets a fresh sequence", seq.map(|q| !pre.packets.contains_key(&q)).unwrap_or(false));
                }
                for m in &tr {
                    check_transfer_shape(cx, m, s.now, "recover", &pre.cfg.protocol_chain_config.ibc_channel_id);
                }
                packets_same(f, "C07:other tracked transfers untouched by recovery", pre, post, &removed);
                prove_same(f, "C01:recovery leaves the totals alone", &[(&post.n, &pre.n), (&post.l, &pre.l), (&post.fees, &pre.fees), (&post.rewards, &pre.rewards)]);
                check_new_packets_tracked(cx, s, msgs);
            } else if let Tx::Err(e) = &s.tx {
                let cand: Vec<&(String, T, String, PacketLifecycleStatus)> = pre.packets.values().filter(|p| p.2 == recv && refundable(&p.3)).collect();
                let one_denom = cand.iter().map(|p| &p.0).collect::<BTreeSet<_>>().len() == 1;
                if selected.is_none() && !cand.is_empty() && one_denom && (receiver.is_none() || matches!(receiver, Some("staker") | Some("n1") | Some("n2"))) {
                    prove(f, &format!("C07:refundable transfers can be recovered by anyone [{}]", short(e)), "false".into());
                }
            }
        }
        Op::FeeWithdraw { sender } => {
            let x = input("fw");
            if s.tx.is_ok() {
                claim(f, "C08:fee withdrawal only for the admin", *sender == P::Admin);
                prove(f, "C11:cannot withdraw more than the accrued fees", t::le(&x, &pre.fees));
                prove(f, "C11:fee balance reduced by the withdrawn amount", t::eq(&post.fees, &t::sub(&pre.fees, &x)));
                let ss = sends(msgs);
                let tre = pre.cfg.protocol_fee_config.treasury_address.as_ref().map(|a| a.to_string());
                claim(f, "C11:fees go only to the configured treasury", tre.is_some() && ss.len() == 1 && msgs.len() == 1 && matches!(ss[0], Emitted::Send { to, from, coins, .. } if Some(to.clone()) == tre && *from == who.contract && coins.len() == 1 && coins[0].0 == addr::NATIVE_DENOM));
                if let Some(Emitted::Send { coins, .. }) = ss.first() {
                    prove(f, "C11:treasury receives exactly the requested amount", t::eq(&coins[0].1, &x));
                }
                prove_same(f, "C01:fee withdrawal leaves the other totals alone", &[(&post.n, &pre.n), (&post.l, &pre.l), (&post.rewards, &pre.rewards)]);
            } else if let Tx::Err(e) = &s.tx {
                if *sender == P::Admin && pre.cfg.protocol_fee_config.treasury_address.is_some() {
                    prove(f, &format!("C11:admin can withdraw any amount up to the accrued fees [{}]", short(e)), t::gt(&x, &pre.fees));
                }
            }
        }
        Op::Ibc { seq, .. } if channel_orphan(b, op, s) => {
            let _ = seq;
            claim(f, "C07:callbacks of transfers sent before a channel change are still honoured", false);
        }
        Op::Ibc { seq, outcome } => {
            claim(f, "C07:ibc callback for a tracked packet is accepted", s.tx.is_ok());
            let had = pre.packets.get(seq);
            match (outcome, had) {
                (0, Some(_)) => claim(f, "C07:success ack removes the record", !post.packets.contains_key(seq)),
                (1, Some(p)) => {
                    claim(f, "C07:error ack marks the transfer refundable", post.packets.get(seq).map(|q| q.3 == PacketLifecycleStatus::AckFailure && q.0 == p.0 && q.2 == p.2).unwrap_or(false));
                    if let Some(q) = post.packets.get(seq) {
                        prove_same(f, "C07:error ack keeps the recorded amount", &[(&q.1, &p.1)]);
                    }
                }
                (_, Some(p)) => {
                    claim(f, "C07:timeout marks the transfer refundable", post.packets.get(seq).map(|q| q.3 == PacketLifecycleStatus::TimedOut && q.0 == p.0 && q.2 == p.2).unwrap_or(false));
                    if let Some(q) = post.packets.get(seq) {
                        prove_same(f, "C07:timeout keeps the recorded amount", &[(&q.1, &p.1)]);
                    }
                }
                _ => {}
            }
            packets_same(f, "C07:other tracked transfers untouched by the callback", pre, post, &[*seq]);
            prove_same(f, "C01:callback leaves the totals alone", &[(&post.n, &pre.n), (&post.l, &pre.l), (&post.fees, &pre.fees), (&post.rewards, &pre.rewards)]);
        }
        Op::StrayReply { .. } => {
            claim(f, "C07:a reply nobody is waiting for is refused and changes nothing", !s.tx.is_ok() && pre.raw == post.raw);
        }
        Op::StrayCallback { seq, foreign_channel, .. } => {
            if *foreign_channel || !pre.packets.contains_key(seq) {
                claim(f, "C07:callbacks for other channels or unknown sequences change nothing", pre.raw == post.raw && s.tx.is_ok());
            }
        }
        Op::Breaker { sender } => {
            if s.tx.is_ok() {
                let a = who_addr(who, sender);
                claim(f, "C08:circuit breaker only for the admin or a monitor", Some(a.clone()) == pre.admin || pre.cfg.monitors.iter().any(|m| m.as_str() == a));
                let mut c = pre.cfg.clone();
                c.stopped = true;
                claim(f, "C10:halting changes nothing but the halted flag", c == post.cfg && raw_equal_except(&pre.raw, &post.raw, &[b"config"]));
            }
        }
        Op::Resume { sender, consistent } => {
            if s.tx.is_ok() {
                claim(f, "C08:resume only for the admin", *sender == P::Admin);
                let mut c = pre.cfg.clone();
                c.stopped = false;
                claim(f, "C10:resume clears the halted flag and leaves the rest of the config alone", c == post.cfg);
                claim(f, "C10:resume touches only config and state", raw_equal_except(&pre.raw, &post.raw, &[b"config", b"state"]));
                if !*consistent {
                    prove(f, "C10:resume sets the staked total to exactly the supplied value", t::eq(&post.n, &input("rn")));
                    prove(f, "C10:resume sets the LST total to exactly the supplied value", t::eq(&post.l, &input("rl")));
                    prove(f, "C10:resume sets the reward total to exactly the supplied value", t::eq(&post.rewards, &input("rr")));
                } else {
                    prove_same(f, "C10:resume with the current totals keeps them", &[(&post.n, &pre.n), (&post.l, &pre.l), (&post.rewards, &pre.rewards)]);
                }
                prove_same(f, "C10:resume leaves the fee balance alone", &[(&post.fees, &pre.fees)]);
                claim(f, "C10:resume leaves the ownership fields alone", post.pending_owner == pre.pending_owner && post.min_time == pre.min_time && post.admin == pre.admin);
                claim(f, "C10:resume emits only the oracle post", msgs.len() == posts(msgs).len());
                check_oracle(cx, s, msgs, true);
            }
        }
        Op::ResumeStaked { sender } => {
            if s.tx.is_ok() {
                claim(f, "C08:resume only for the admin", *sender == P::Admin);
                prove(f, "C10:resume sets the staked total to exactly the supplied value", t::eq(&post.n, &input("rn")));
                prove_same(f, "C10:resume keeps the totals it was given unchanged", &[(&post.l, &pre.l), (&post.rewards, &pre.rewards), (&post.fees, &pre.fees)]);
                check_oracle(cx, s, msgs, true);
            }
        }
        Op::AddValidator { sender, which } => {
            if s.tx.is_ok() {
                claim(f, "C08:validator set changes only for the admin", *sender == P::Admin);
                let added = match which {
                    0 => who.val3.clone(),
                    1 => who.val1.clone(),
                    _ => String::new(),
                };
                claim(f, "C14:only a new, well-prefixed validator is added", !added.is_empty() && !pre.cfg.native_chain_config.validators.iter().any(|v| v.as_str() == added));
                // the validator list is compared as a multiset: the property does not fix an order
                let mut c = pre.cfg.clone();
                c.native_chain_config.validators.push(cosmwasm_std::Addr::unchecked(added.clone()));
                c.native_chain_config.validators.sort();
                let mut p2 = post.cfg.clone();
                p2.native_chain_config.validators.sort();
                claim(f, "C14:add changes exactly the named validator", c == p2 && raw_equal_except(&pre.raw, &post.raw, &[b"config"]));
            }
        }
        Op::RemoveValidator { sender, which } => {
            if s.tx.is_ok() {
                claim(f, "C08:validator set changes only for the admin", *sender == P::Admin);
                claim(f, "C14:only a listed validator is removed", *which == 0 && pre.cfg.native_chain_config.validators.iter().any(|v| v.as_str() == who.val1));
                let mut c = pre.cfg.clone();
                c.native_chain_config.validators.retain(|v| v.as_str() != who.val1);
                c.native_chain_config.validators.sort();
                let mut p2 = post.cfg.clone();
                p2.native_chain_config.validators.sort();
                claim(f, "C14:remove changes exactly the named validator", c == p2 && raw_equal_except(&pre.raw, &post.raw, &[b"config"]));
            }
        }
        Op::TransferOwnership { sender, .. } | Op::RevokeOwnership { sender } => {
            if s.tx.is_ok() {
                if let Op::TransferOwnership { to, .. } = op {
                    // the nominated account is defined by the most recent nomination, whatever was pending before
                    let named = who_addr(who, to);
                    claim(f, "C08:after a nomination exactly the named account is the one able to accept", post.pending_owner.as_deref() == Some(named.as_str()));
                    claim(f, "C12:a nomination (first or newer) records the named account and restarts the 7-day lock", post.pending_owner.as_deref() == Some(named.as_str()) && post.min_time == Some(s.now + 7 * 86400));
                } else {
                    claim(f, "C12:revocation clears the nomination and the lock", post.pending_owner.is_none() && post.min_time.is_none());
                }
                claim(f, "C08:ownership nomination / revocation only for the admin", Some(who_addr(who, sender)) == pre.admin);
                claim(f, "C12:nomination / revocation does not change the admin", post.admin == pre.admin);
                claim(f, "C12:only the state item changes", raw_equal_except(&pre.raw, &post.raw, &[b"state"]));
                prove_same(f, "C12:nomination / revocation leaves the totals alone", &[(&post.n, &pre.n), (&post.l, &pre.l), (&post.fees, &pre.fees), (&post.rewards, &pre.rewards)]);
            }
        }
        Op::AcceptOwnership { sender } => {
            if s.tx.is_ok() {
                let a = who_addr(who, sender);
                claim(f, "C08:acceptance only by the nominated account", pre.pending_owner.as_deref() == Some(a.as_str()));
                claim(f, "C12:acceptance not before the time lock expires", pre.min_time.map(|m| s.now >= m).unwrap_or(true));
                claim(f, "C12:acceptance makes the nominee admin and consumes the nomination", post.admin.as_deref() == Some(a.as_str()) && post.pending_owner.is_none());
                claim(f, "C12:acceptance touches only admin and state", raw_equal_except(&pre.raw, &post.raw, &[b"state", b"admin"]));
            } else {
                claim(f, "C12:failed acceptance leaves the admin alone", post.admin == pre.admin);
            }
        }
        Op::UpdateConfig { sender, sections } => {
            if s.tx.is_ok() {
                claim(f, "C08:config update only for the admin", *sender == P::Admin);
                crate::cfgops::check_update(cx, s, *sections);
            } else if let Tx::Err(e) = &s.tx {
                // every section built by cfgops is well-formed unless it carries an old-prefix address next to a prefix change
                let old_prefix_addr = *sections & crate::cfgops::S_OLDPREFIX_TREASURY != 0 && *sections & crate::cfgops::S_PROTOCOL != 0 && *sections & (crate::cfgops::S_FEE | crate::cfgops::S_MONITORS) != 0;
                // a prefix change without re-validating stored addresses is allowed by the code; monitors under the old prefix in the same message are not
                if *sender == P::Admin && !old_prefix_addr {
                    claim(f, &format!("C14:a well-formed update is accepted from the admin [{}]", short(e)), false);
                }
            }
        }
        Op::Donate { .. } | Op::UnstakeMinted { .. } => {}
        Op::SetTreasury { on } => {
            if s.tx.is_ok() {
                claim(f, "C14:fee section update switches the treasury as requested", post.cfg.protocol_fee_config.treasury_address.is_some() == *on);
                prove(f, "C14:fee rate replaced by the supplied value", t::eq(&t::ut(post.cfg.protocol_fee_config.dao_treasury_fee), &input("ucfee")));
                prove_same(f, "C11:a fee configuration change leaves the accrued fee balance and the totals alone", &[(&post.fees, &pre.fees), (&post.n, &pre.n), (&post.l, &pre.l), (&post.rewards, &pre.rewards)]);
            }
        }
    }
    // C08 "any other caller gets an error and nothing changes"
    if !s.tx.is_ok() {
        claim(f, "C08:failed operation changes nothing", pre.raw == post.raw);
    }
    let _ = b;
}

/// Build-independent description of what a transaction did: outcome, every emitted message with the
/// token-factory module path stripped from its type URL, and the resulting totals (terms).
pub fn behaviour_digest(s: &StepOut) -> String {
    let mut out = format!("{}|", s.tx.kind());
    if let Tx::Ok { msgs, .. } = &s.tx {
        for m in msgs {
            let d = match m {
                Emitted::CreateDenom { url, sender, subdenom, .. } => format!("{}({sender},{subdenom})", url.rsplit('.').next().unwrap_or("")),
                Emitted::Mint { url, sender, denom, amount, to, .. } => format!("{}({sender},{denom},{amount},{to})", url.rsplit('.').next().unwrap_or("")),
                Emitted::Burn { url, sender, denom, amount, from, .. } => format!("{}({sender},{denom},{amount},{from})", url.rsplit('.').next().unwrap_or("")),
                other => format!("{other:?}"),
            };
            out.push_str(&d);
            out.push(';');
        }
    } else {
        out.push_str(&s.tx.detail());
    }
    out.push_str(&format!("|N={} L={} F={} R={} pend={} nb={} npk={}", s.post.n, s.post.l, s.post.fees, s.post.rewards, s.post.pending_id, s.post.batches.len(), s.post.packets.len()));
    out
}

pub fn raw_equal_except(a: &crate::world::Dump, b: &crate::world::Dump, keys: &[&[u8]]) -> bool {
    let fa: Vec<_> = a.iter().filter(|(k, _)| !keys.iter().any(|x| k.as_slice() == *x)).collect();
    let fb: Vec<_> = b.iter().filter(|(k, _)| !keys.iter().any(|x| k.as_slice() == *x)).collect();
    fa == fb
}

pub fn short(e: &str) -> String {
    let s: String = e.chars().take(60).collect();
    s.replace('\n', " ")
}

/// Stable key of a panic: message without volatile numbers + source location relative to the repo.
pub fn panic_key(p: &str) -> String {
    let (msg, loc) = match p.rsplit_once(" @ ") {
        Some((m, l)) => (m, l),
        None => (p, ""),
    };
    // "<file>:<line> in <function> via <dep file>"  ->  "<function> via <dep file>" (robust against line shifts)
    let key_loc = match loc.split_once(" in ") {
        Some((_, rest)) => rest.to_string(),
        None => loc.trim_start_matches("/repo/").to_string(),
    };
    let msg: String = msg.chars().take(80).collect();
    format!("{} @ {}", msg.replace('\n', " "), key_loc)
}
