//! Principals of the chain model and the harness's own ibc-hooks sender derivation.
#![allow(dead_code)]
use bech32::ToBase32;
use sha2::{Digest, Sha256};

pub fn addr(prefix: &str, seed: u8, len: usize) -> String {
    let bytes: Vec<u8> = (0..len).map(|i| seed.wrapping_mul(31).wrapping_add(i as u8 * 7 + 1)).collect();
    bech32::encode(prefix, bytes.to_base32(), bech32::Variant::Bech32).unwrap()
}

/// Osmosis x/ibc-hooks `DeriveIntermediateSender`:
/// `bech32(prefix, sha256(sha256("ibc-wasm-hook-intermediary") ++ "<channel>/<sender>"))`
/// (cosmos-sdk `address.Hash(typ, key)`), written here from the specification.
pub fn hook_sender(channel: &str, original_sender: &str, prefix: &str) -> String {
    let th = Sha256::digest(b"ibc-wasm-hook-intermediary");
    let mut h = Sha256::new();
    h.update(th);
    h.update(format!("{channel}/{original_sender}").as_bytes());
    let out = h.finalize();
    bech32::encode(prefix, out.to_vec().to_base32(), bech32::Variant::Bech32).unwrap()
}

pub const NATIVE_DENOM: &str = "ibc/C3E53D20BC7A4CC993B17C7971F8ECD06A433C10B6A96F4C4C3714F0624C56DA";
pub const OTHER_DENOM: &str = "uosmo";
pub const SUBDENOM: &str = "umilkTIA";
pub const CHANNEL: &str = "channel-123";
pub const OTHER_CHANNEL: &str = "channel-7";

#[derive(Clone, Debug)]
pub struct Who {
    pub pp: String, // protocol chain prefix
    pub np: String, // native chain prefix
    pub vp: String, // validator prefix
    pub contract: String,
    pub admin: String,
    pub ex_admin: String,
    pub nominee: String,
    pub monitor: String,
    pub u1: String,
    pub u2: String,
    pub u3: String,
    pub c32: String, // a 32-byte (contract / module) account on the protocol chain
    pub treasury: String,
    pub oracle: String,
    pub staker: String,
    pub collector: String,
    pub n1: String, // native-chain user
    pub n2: String,
    pub val1: String,
    pub val2: String,
    pub val3: String,
    pub hook_staker: String,
    pub hook_collector: String,
}

impl Who {
    pub fn new(same_prefix: bool) -> Who {
        let pp = "osmo".to_string();
        let np = if same_prefix { "osmo".to_string() } else { "celestia".to_string() };
        let vp = if same_prefix { "osmovaloper".to_string() } else { "celestiavaloper".to_string() };
        let staker = addr(&np, 40, 20);
        let collector = addr(&np, 41, 20);
        Who {
            contract: addr(&pp, 1, 32),
            admin: addr(&pp, 2, 20),
            ex_admin: addr(&pp, 3, 20),
            nominee: addr(&pp, 4, 20),
            monitor: addr(&pp, 5, 20),
            u1: addr(&pp, 6, 20),
            u2: addr(&pp, 7, 20),
            u3: addr(&pp, 8, 20),
            c32: addr(&pp, 9, 32),
            treasury: addr(&pp, 10, 32),
            oracle: addr(&pp, 11, 32),
            n1: addr(&np, 42, 20),
            n2: addr(&np, 43, 20),
            val1: addr(&vp, 50, 20),
            val2: addr(&vp, 51, 20),
            val3: addr(&vp, 52, 20),
            hook_staker: hook_sender(CHANNEL, &staker, &pp),
            hook_collector: hook_sender(CHANNEL, &collector, &pp),
            staker,
            collector,
            pp,
            np,
            vp,
        }
    }
    pub fn lst_denom(&self) -> String {
        format!("factory/{}/{}", self.contract, SUBDENOM)
    }
    pub fn name_of(&self, a: &str) -> String {
        let table = [
            (&self.contract, "contract"),
            (&self.admin, "admin"),
            (&self.ex_admin, "ex_admin"),
            (&self.nominee, "nominee"),
            (&self.monitor, "monitor"),
            (&self.u1, "u1"),
            (&self.u2, "u2"),
            (&self.u3, "u3"),
            (&self.c32, "c32"),
            (&self.treasury, "treasury"),
            (&self.oracle, "oracle"),
            (&self.staker, "staker"),
            (&self.collector, "collector"),
            (&self.n1, "n1"),
            (&self.n2, "n2"),
            (&self.hook_staker, "hook_staker"),
            (&self.hook_collector, "hook_collector"),
        ];
        for (k, v) in table {
            if k == a {
                return v.to_string();
            }
        }
        a.to_string()
    }
}
