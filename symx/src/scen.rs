//! Small-scope structure family, arbitrary-state builder, state snapshots and the invariant `Inv`.
#![allow(dead_code)]
use crate::addr::{self, Who};
use crate::t::{self, T};
use crate::world::{dump, Chain, Dump, PState, WPacket};
use cosmwasm_std::{Coin, Order, Uint128};
use milky_way::staking::{Batch, BatchStatus};
use staking::msg::InstantiateMsg;
use staking::state::ibc::{IBCTransfer, PacketLifecycleStatus};
use staking::state::{unstake_requests, UnstakeRequest, ADMIN, BATCHES, CONFIG, IBC_WAITING_FOR_REPLY, INFLIGHT_PACKETS, PENDING_BATCH_ID, STATE};
use staking::types::{UnsafeNativeChainConfig, UnsafeProtocolChainConfig, UnsafeProtocolFeeConfig};
use std::collections::BTreeMap;

#[derive(Clone, Debug)]
pub struct CfgSpec {
    pub treasury: bool,
    pub oracle: bool,
    pub same_prefix: bool,
    pub stopped: bool,
    /// 0: batch period 1 day, unbonding period 14 days, one monitor, two validators; 1: both periods 0, no monitor, no validator;
    /// 2: both periods 1 s and two monitors (a second one that is also an ordinary user)
    pub variant: u8,
}
impl CfgSpec {
    pub fn name(&self) -> String {
        format!("{}{}{}{}{}", if self.treasury { "T" } else { "t" }, if self.oracle { "O" } else { "o" }, if self.same_prefix { "P" } else { "p" }, if self.stopped { "S" } else { "s" }, if self.variant == 0 { String::new() } else { format!("v{}", self.variant) })
    }
    pub fn periods(&self) -> (u64, u64) {
        match self.variant {
            1 => (0, 0),
            2 => (1, 1),
            _ => (86_400, 1_209_600),
        }
    }
    pub fn all() -> Vec<CfgSpec> {
        let mut v = vec![];
        for treasury in [true, false] {
            for oracle in [true, false] {
                for same_prefix in [false, true] {
                    v.push(CfgSpec { treasury, oracle, same_prefix, stopped: false, variant: 0 });
                }
            }
        }
        v
    }
    pub fn base() -> CfgSpec {
        CfgSpec { treasury: true, oracle: true, same_prefix: false, stopped: false, variant: 0 }
    }
}

#[derive(Clone, Debug, PartialEq)]
pub enum St {
    Pending,
    Submitted,
    Received,
}

#[derive(Clone, Debug)]
pub struct BatchSpec {
    pub status: St,
    /// users (index into [u1,u2,u3]) with an open request
    pub reqs: Vec<usize>,
    /// number of requests already withdrawn (Received batches only)
    pub withdrawn: u64,
    /// deadline relative to `now`: -1 = passed one second ago, 0 = exactly now, 1 = one second in the future
    pub due: i64,
}

#[derive(Clone, Debug, PartialEq)]
pub enum PDenom {
    Native,
    Lst,
}
#[derive(Clone, Debug, PartialEq)]
pub enum PRecv {
    Staker,
    N1,
    N2,
}
#[derive(Clone, Debug)]
pub struct PacketSpec {
    pub seq: u64,
    pub denom: PDenom,
    pub recv: PRecv,
    pub status: PacketLifecycleStatus,
}

#[derive(Clone, Debug)]
pub struct Structure {
    pub name: String,
    pub cfg: CfgSpec,
    pub batches: Vec<BatchSpec>,
    pub packets: Vec<PacketSpec>,
    /// total_liquid_stake_token is assumed > 0 (false: unconstrained, may be zero)
    pub nonempty_pool: bool,
    /// the described batches get the ids id_base+1.. ; ids 1..=id_base are finished batches (Received, everything
    /// withdrawn, all amounts zero) when id_base <= 512, and are left out of the store for larger bases
    pub id_base: u64,
}

#[derive(Clone, Debug)]
pub struct BSnap {
    pub total: T,
    pub expected: Option<T>,
    pub received: Option<T>,
    pub count: Option<u64>,
    pub next: Option<u64>,
    pub status: BatchStatus,
    pub legacy_requests: bool,
}

#[derive(Clone, Debug)]
pub struct Snap {
    pub n: T,
    pub l: T,
    pub fees: T,
    pub rewards: T,
    pub pending_owner: Option<String>,
    pub min_time: Option<u64>,
    pub admin: Option<String>,
    pub cfg: staking::state::Config,
    pub pending_id: u64,
    pub batches: BTreeMap<u64, BSnap>,
    pub reqs: BTreeMap<(u64, String), T>,
    /// the same requests as seen through the `by_user` index: (user, batch) -> amount
    pub reqs_idx: BTreeMap<(String, u64), T>,
    pub packets: BTreeMap<u64, (String, T, String, PacketLifecycleStatus)>,
    pub waiting: BTreeMap<u64, (String, T, String)>,
    pub raw: Dump,
}

pub fn snap(chain: &Chain) -> Snap {
    let s = &chain.deps.storage;
    let st = STATE.load(s).expect("SYMX-HARNESS: state");
    let cfg = CONFIG.load(s).expect("SYMX-HARNESS: config");
    let mut batches = BTreeMap::new();
    for r in BATCHES.range(s, None, None, Order::Ascending) {
        let (id, b): (u64, Batch) = r.expect("SYMX-HARNESS: batch decode");
        batches.insert(
            id,
            BSnap {
                total: t::ut(b.batch_total_liquid_stake),
                expected: b.expected_native_unstaked.map(t::ut),
                received: b.received_native_unstaked.map(t::ut),
                count: b.unstake_requests_count,
                next: b.next_batch_action_time,
                status: b.status,
                legacy_requests: b.liquid_unstake_requests.is_some(),
            },
        );
    }
    let mut reqs = BTreeMap::new();
    for r in unstake_requests().range(s, None, None, Order::Ascending) {
        let ((bid, user), q): ((u64, String), UnstakeRequest) = r.expect("SYMX-HARNESS: request decode");
        assert!(bid == q.batch_id && user == q.user, "SYMX-HARNESS: request key/value mismatch");
        reqs.insert((bid, user), t::ut(q.amount));
    }
    let mut reqs_idx = BTreeMap::new();
    for r in unstake_requests().idx.by_user.range(s, None, None, Order::Ascending) {
        // an index entry the code under test cannot decode is a finding about that code, not a harness error: it is left out
        // here, so I5 (index = primary map) and the query obligations report it
        if let Ok((_k, q)) = r {
            reqs_idx.insert((q.user.clone(), q.batch_id), t::ut(q.amount));
        }
    }
    let mut packets = BTreeMap::new();
    for r in INFLIGHT_PACKETS.range(s, None, None, Order::Ascending) {
        // likewise for tracked transfers: an undecodable record counts as no record (I7 reports the untracked transfer)
        if let Ok((k, p)) = r {
            let (k, p): (u64, IBCTransfer) = (k, p);
            assert!(k == p.sequence, "SYMX-HARNESS: packet key != sequence");
            packets.insert(k, (p.amount.denom.clone(), t::ut(p.amount.amount), p.receiver.clone(), p.status));
        }
    }
    let mut waiting = BTreeMap::new();
    for r in IBC_WAITING_FOR_REPLY.range(s, None, None, Order::Ascending) {
        let (k, p) = r.expect("SYMX-HARNESS: waiting decode");
        waiting.insert(k, (p.amount.denom.clone(), t::ut(p.amount.amount), p.receiver.clone()));
    }
    Snap {
        n: t::ut(st.total_native_token),
        l: t::ut(st.total_liquid_stake_token),
        fees: t::ut(st.total_fees),
        rewards: t::ut(st.total_reward_amount),
        pending_owner: st.pending_owner.map(|a| a.to_string()),
        min_time: st.owner_transfer_min_time.map(|x| x.seconds()),
        admin: ADMIN.get(chain.deps.as_ref()).expect("SYMX-HARNESS: admin").map(|a| a.to_string()),
        cfg,
        pending_id: PENDING_BATCH_ID.load(s).expect("SYMX-HARNESS: pending id"),
        batches,
        reqs,
        reqs_idx,
        packets,
        waiting,
        raw: dump(s),
    }
}

/// Ghost ledgers of DESIGN 4.1 (maintained by the harness from what it observes in the world).
#[derive(Clone, Debug)]
pub struct Ghost {
    pub paid: BTreeMap<u64, T>,
    pub wd: BTreeMap<u64, T>,
    pub wcount: BTreeMap<u64, u64>,
    pub don_n: T,
    pub don_l: T,
    pub delivered: T,
    pub swept: T,
}

pub fn init_msg(who: &Who, cfg: &CfgSpec, fee_rate: Uint128, min_stake: Uint128) -> InstantiateMsg {
    InstantiateMsg {
        native_chain_config: UnsafeNativeChainConfig {
            account_address_prefix: who.np.clone(),
            validator_address_prefix: who.vp.clone(),
            token_denom: "utia".into(),
            validators: if cfg.variant == 1 { vec![] } else { vec![who.val1.clone(), who.val2.clone()] },
            unbonding_period: cfg.periods().1,
            staker_address: who.staker.clone(),
            reward_collector_address: who.collector.clone(),
        },
        protocol_chain_config: UnsafeProtocolChainConfig {
            account_address_prefix: who.pp.clone(),
            ibc_token_denom: addr::NATIVE_DENOM.into(),
            ibc_channel_id: addr::CHANNEL.into(),
            minimum_liquid_stake_amount: min_stake,
            oracle_address: if cfg.oracle { Some(who.oracle.clone()) } else { None },
        },
        protocol_fee_config: UnsafeProtocolFeeConfig { dao_treasury_fee: fee_rate, treasury_address: if cfg.treasury { Some(who.treasury.clone()) } else { None } },
        liquid_stake_token_denom: addr::SUBDENOM.into(),
        batch_period: cfg.periods().0,
        monitors: match cfg.variant {
            1 => vec![],
            2 => vec![who.monitor.clone(), who.u3.clone()],
            _ => vec![who.monitor.clone()],
        },
    }
}

/// Instantiate through the real entry point (validates and stores the configuration).
pub fn instantiate(cfg: &CfgSpec, fee_rate: Uint128, min_stake: Uint128) -> Chain {
    let who = Who::new(cfg.same_prefix);
    let mut chain = Chain::new(who.clone());
    let msg = init_msg(&who, cfg, fee_rate, min_stake);
    let r = chain.tx("instantiate", &who.admin.clone(), &[], |d, e, i| staking::contract::instantiate(d, e, i, msg));
    assert!(r.is_ok(), "SYMX-HARNESS: instantiate failed: {}", r.detail());
    chain
}

pub fn users(who: &Who) -> [String; 3] {
    [who.u1.clone(), who.u2.clone(), who.u3.clone()]
}

pub struct Built {
    pub chain: Chain,
    pub ghost: Ghost,
    /// (paid amount, minted amount) of the most recent successful stake
    pub last_stake: Option<(T, T)>,
    /// (user, paid amount, minted amount) when a user unstaked exactly what the last stake minted
    pub roundtrip: Option<(String, T, T)>,
    /// operation inputs are fixed constants instead of fresh symbols (prefixes of generated sequences)
    pub fixed_inputs: bool,
    /// set when the history hit a listed finding whose consequences would only repeat themselves
    pub poisoned: bool,
}

fn v(name: &str) -> Uint128 {
    Uint128::new(symcore::var(name))
}

/// Builds an arbitrary state of the given structure: every amount is a fresh symbol.
/// `Inv` (returned by `inv`) still has to be assumed by the caller.
pub fn build(s: &Structure) -> Built {
    let fee = v("fee_rate");
    let min = v("min_stake");
    let mut chain = instantiate(&s.cfg, fee, min);
    let who = chain.who.clone();
    let lst = who.lst_denom();
    let now = chain.now();
    {
        let st = &mut chain.deps.storage;
        let mut cfg = CONFIG.load(st).unwrap();
        cfg.stopped = s.cfg.stopped;
        CONFIG.save(st, &cfg).unwrap();
        let mut state = STATE.load(st).unwrap();
        state.total_native_token = v("N");
        state.total_liquid_stake_token = v("L");
        state.total_reward_amount = v("RW");
        state.total_fees = v("FEES");
        STATE.save(st, &state).unwrap();
    }
    let us = users(&who);
    let mut ghost = Ghost { paid: BTreeMap::new(), wd: BTreeMap::new(), wcount: BTreeMap::new(), don_n: t::ut(v("DonN")), don_l: t::ut(v("DonL")), delivered: t::ut(v("Dlv")), swept: t::ut(v("Sw")) };
    let nb = s.id_base + s.batches.len() as u64;
    assert!(!s.batches.is_empty() && s.batches.last().unwrap().status == St::Pending, "SYMX-HARNESS: last batch must be pending");
    if s.id_base <= 512 {
        for id in 1..=s.id_base {
            let mut batch = Batch::new(id, Uint128::zero(), now);
            batch.unstake_requests_count = Some(0);
            batch.expected_native_unstaked = Some(Uint128::zero());
            batch.received_native_unstaked = Some(Uint128::zero());
            batch.update_status(BatchStatus::Received, None);
            ghost.paid.insert(id, "0".into());
            ghost.wd.insert(id, "0".into());
            ghost.wcount.insert(id, 0);
            BATCHES.save(&mut chain.deps.storage, id, &batch).unwrap();
        }
    } else {
        // the prefix of finished batches is left out; the pending batch created by instantiate goes with it
        BATCHES.remove(&mut chain.deps.storage, 1);
    }
    for (i, b) in s.batches.iter().enumerate() {
        let id = s.id_base + i as u64 + 1;
        let due = (now as i64 + b.due) as u64;
        let mut batch = Batch::new(id, v(&format!("T{id}")), due);
        batch.unstake_requests_count = Some(b.reqs.len() as u64 + b.withdrawn);
        match b.status {
            St::Pending => {
                assert!(id == nb, "SYMX-HARNESS: pending batch must be last");
            }
            St::Submitted => {
                batch.expected_native_unstaked = Some(v(&format!("E{id}")));
                batch.update_status(BatchStatus::Submitted, Some(due));
            }
            St::Received => {
                batch.expected_native_unstaked = Some(v(&format!("E{id}")));
                batch.received_native_unstaked = Some(v(&format!("RC{id}")));
                batch.update_status(BatchStatus::Received, None);
                ghost.paid.insert(id, if b.withdrawn > 0 { t::ut(v(&format!("P{id}"))) } else { "0".into() });
            }
        }
        ghost.wd.insert(id, if b.withdrawn > 0 { t::ut(v(&format!("W{id}"))) } else { "0".into() });
        ghost.wcount.insert(id, b.withdrawn);
        BATCHES.save(&mut chain.deps.storage, id, &batch).unwrap();
        for &u in &b.reqs {
            let a = v(&format!("a{id}_{u}"));
            unstake_requests().save(&mut chain.deps.storage, (id, us[u].clone()), &UnstakeRequest { batch_id: id, user: us[u].clone(), amount: a }).unwrap();
        }
    }
    PENDING_BATCH_ID.save(&mut chain.deps.storage, &nb).unwrap();
    for p in &s.packets {
        let denom = if p.denom == PDenom::Native { addr::NATIVE_DENOM.to_string() } else { lst.clone() };
        let recv = match p.recv {
            PRecv::Staker => who.staker.clone(),
            PRecv::N1 => who.n1.clone(),
            PRecv::N2 => who.n2.clone(),
        };
        let amt = v(&format!("pk{}", p.seq));
        INFLIGHT_PACKETS
            .save(&mut chain.deps.storage, p.seq, &IBCTransfer { sequence: p.seq, amount: Coin { denom: denom.clone(), amount: amt }, receiver: recv.clone(), status: p.status.clone() })
            .unwrap();
        chain.w.packets.push(WPacket {
            seq: p.seq,
            channel: addr::CHANNEL.into(),
            denom,
            amount: t::ut(amt),
            sender: who.contract.clone(),
            receiver: recv,
            state: if p.status == PacketLifecycleStatus::Sent { PState::Sent } else { PState::Refunded },
            memo: String::new(),
            timeout_ns: 0,
        });
        chain.w.next_seq = chain.w.next_seq.max(p.seq + 1);
    }
    // the bank is whatever I2 / I3 say it is (plus unsolicited deposits)
    let sn = snap(&chain);
    let owed_n = owed_native(&sn, &ghost);
    chain.set_bal(&who.contract, addr::NATIVE_DENOM, t::add(&owed_n, &ghost.don_n));
    let owed_l = owed_lst(&sn, &lst);
    chain.set_bal(&who.contract, &lst, t::add(&owed_l, &ghost.don_l));
    chain.w.supply.insert(lst.clone(), sn.l.clone());
    chain.w.created.push((who.contract.clone(), addr::SUBDENOM.to_string()));
    chain.trace.clear();
    Built { chain, ghost, last_stake: None, roundtrip: None, fixed_inputs: false, poisoned: false }
}

pub fn refundable(sn: &Snap, denom: &str) -> Vec<T> {
    sn.packets.values().filter(|(d, _, _, st)| d == denom && (*st == PacketLifecycleStatus::AckFailure || *st == PacketLifecycleStatus::TimedOut)).map(|p| p.1.clone()).collect()
}

/// what the contract owes in the staked asset: (a) received, not yet withdrawn; (b) retained fees; (c) refunded, not yet re-sent
pub fn owed_native(sn: &Snap, g: &Ghost) -> T {
    let mut parts = vec![];
    for (id, b) in &sn.batches {
        if let Some(r) = &b.received {
            let paid = g.paid.get(id).cloned().unwrap_or_else(|| "0".into());
            parts.push(t::sub(r, &paid));
        }
    }
    parts.push(sn.fees.clone());
    parts.extend(refundable(sn, addr::NATIVE_DENOM));
    t::sum(&parts)
}
pub fn owed_lst(sn: &Snap, lst: &str) -> T {
    let mut parts = vec![sn.batches.get(&sn.pending_id).map(|b| b.total.clone()).unwrap_or_else(|| "0".into())];
    parts.extend(refundable(sn, lst));
    t::sum(&parts)
}

/// LST the contract holds plus LST escrowed for its in-flight transfers
pub fn lst_held(chain: &Chain) -> T {
    let lst = chain.who.lst_denom();
    let mut held = vec![chain.bal(&chain.who.contract, &lst)];
    for p in chain.w.packets.iter() {
        if p.sender == chain.who.contract && p.denom == lst && p.state == PState::Sent {
            held.push(p.amount.clone());
        }
    }
    t::sum(&held)
}

/// Structural (concrete) part of the invariant: I4, the concrete half of I5 and I7. Returns violated clauses.
pub fn inv_structural(sn: &Snap, chain: &Chain, g: &Ghost) -> Vec<String> {
    let mut bad = vec![];
    let ids: Vec<u64> = sn.batches.keys().cloned().collect();
    // contiguous ids; they start at 1 unless the structure left out a prefix of finished batches (id_base > 512)
    let first = ids.first().cloned().unwrap_or(1);
    let max = first + ids.len() as u64 - 1;
    if ids != (first..=max).collect::<Vec<u64>>() || (first != 1 && first <= 513) {
        bad.push(format!("I4: batch ids are not contiguous from 1: {ids:?}"));
    }
    if sn.pending_id != max {
        bad.push(format!("I4: pending id {} is not the highest id {max}", sn.pending_id));
    }
    for (id, b) in &sn.batches {
        let pend = b.status == BatchStatus::Pending;
        if pend != (*id == sn.pending_id) {
            bad.push(format!("I4: batch {id} status {:?} vs pending id {}", b.status, sn.pending_id));
        }
        if b.expected.is_some() == pend {
            bad.push(format!("I4: batch {id} expected amount presence does not match status {:?}", b.status));
        }
        if b.received.is_some() != (b.status == BatchStatus::Received) {
            bad.push(format!("I4: batch {id} received amount presence does not match status {:?}", b.status));
        }
        if b.next.is_some() == (b.status == BatchStatus::Received) {
            bad.push(format!("I4: batch {id} next action time presence does not match status {:?}", b.status));
        }
        let open = sn.reqs.keys().filter(|(bid, _)| bid == id).count() as u64;
        let w = g.wcount.get(id).cloned().unwrap_or(0);
        if b.count != Some(open + w) {
            bad.push(format!("I5: batch {id} request counter {:?} != open {open} + withdrawn {w}", b.count));
        }
    }
    // primary map and by_user index agree
    let a: Vec<(u64, String)> = sn.reqs.keys().cloned().collect();
    let mut b2: Vec<(u64, String)> = sn.reqs_idx.keys().map(|(u, b)| (*b, u.clone())).collect();
    b2.sort();
    if a != b2 {
        bad.push("I5: by_user index and primary request map disagree".into());
    }
    for (k, _) in &sn.reqs {
        if !sn.batches.contains_key(&k.0) {
            bad.push(format!("I5: request for unknown batch {}", k.0));
        }
    }
    // I7
    if !sn.waiting.is_empty() {
        bad.push("I7: IBC_WAITING_FOR_REPLY not empty between transactions".into());
    }
    for p in chain.w.packets.iter().filter(|p| p.sender == chain.who.contract) {
        let rec = sn.packets.get(&p.seq);
        match (&p.state, rec) {
            (PState::Delivered, None) | (PState::Resent, None) => {}
            (PState::Delivered, Some(_)) => bad.push(format!("I7: delivered packet {} still recorded", p.seq)),
            (PState::Resent, Some(_)) => bad.push(format!("I7: re-sent packet {} still recorded", p.seq)),
            (_, None) => bad.push(format!("I7: packet {} ({:?}) has no record", p.seq, p.state)),
            (st, Some((d, _, r, rs))) => {
                if *d != p.denom || *r != p.receiver {
                    bad.push(format!("I7: packet {} record denom/receiver mismatch", p.seq));
                }
                let sent = *rs == PacketLifecycleStatus::Sent;
                let refundable = *rs == PacketLifecycleStatus::AckFailure || *rs == PacketLifecycleStatus::TimedOut;
                if (*st == PState::Sent) != sent || (*st == PState::Refunded) != refundable {
                    bad.push(format!("I7: packet {} world state {:?} vs record status {:?}", p.seq, st, rs));
                }
            }
        }
    }
    for (seq, _) in &sn.packets {
        if !chain.w.packets.iter().any(|p| p.seq == *seq && p.sender == chain.who.contract) {
            bad.push(format!("I7: record {seq} has no packet on the chain"));
        }
    }
    bad
}

/// Symbolic conjuncts of `Inv`, each tagged with the property it mainly serves.
pub fn inv_terms(sn: &Snap, chain: &Chain, g: &Ghost) -> Vec<(String, T)> {
    let who = &chain.who;
    let lst = who.lst_denom();
    let mut out: Vec<(String, T)> = vec![];
    // I1
    let mut lhs = vec![sn.n.clone(), g.swept.clone()];
    for b in sn.batches.values() {
        if let Some(e) = &b.expected {
            lhs.push(e.clone());
        }
    }
    let mut rhs = vec![g.delivered.clone()];
    for p in chain.w.packets.iter() {
        // every staked-asset transfer of the contract goes toward the staker configured when it was sent
        if p.sender == who.contract && p.denom == addr::NATIVE_DENOM && (p.state == PState::Sent || p.state == PState::Refunded) {
            rhs.push(p.amount.clone());
        }
    }
    out.push(("C01:I1 staked total = forwarded - set aside - swept".into(), t::eq(&t::sum(&lhs), &t::sum(&rhs))));
    // I2
    out.push(("C02:I2 native balance = owed + unsolicited".into(), t::eq(&chain.bal(&who.contract, addr::NATIVE_DENOM), &t::add(&owed_native(sn, g), &g.don_n))));
    // I3
    out.push(("C03:I3a LST supply = total_liquid_stake_token".into(), t::eq(&chain.supply_of(&lst), &sn.l)));
    out.push(("C03:I3b contract LST = pending batch + refundable LST + unsolicited".into(), t::eq(&chain.bal(&who.contract, &lst), &t::add(&owed_lst(sn, &lst), &g.don_l))));
    // I3c: what the contract holds plus what sits in the IBC escrow for its in-flight LST transfers is part of the supply
    out.push(("C03:I3c contract LST balance + escrowed LST <= supply".into(), t::le(&lst_held(chain), &chain.supply_of(&lst))));
    // I5
    for (id, b) in &sn.batches {
        let open: Vec<T> = sn.reqs.iter().filter(|((bid, _), _)| bid == id).map(|(_, a)| a.clone()).collect();
        let w = g.wd.get(id).cloned().unwrap_or_else(|| "0".into());
        let mut parts = open.clone();
        parts.push(w.clone());
        out.push((format!("C05:I5 batch {id} total = sum of requests + withdrawn"), t::eq(&b.total, &t::sum(&parts))));
        for a in &open {
            out.push((format!("C05:I5 batch {id} request amount > 0"), t::gt(a, "0")));
        }
        if let Some(r) = &b.received {
            let p = g.paid.get(id).cloned().unwrap_or_else(|| "0".into());
            out.push((format!("C05:I5 batch {id} paid*total <= received*withdrawn"), t::le(&t::mul(&p, &b.total), &t::mul(r, &w))));
        }
        if b.status != BatchStatus::Pending {
            out.push((format!("C06:I4 batch {id} submitted batches are non-empty"), t::gt(&b.total, "0")));
        }
        if g.wcount.get(id).cloned().unwrap_or(0) == 0 {
            out.push((format!("C05:I5 batch {id} nothing withdrawn yet"), t::eq(&w, "0")));
        }
    }
    // I6
    out.push(("C02:I6 no stake without LST".into(), t::implies(&t::eq(&sn.l, "0"), &t::eq(&sn.n, "0"))));
    // I7 amounts
    for p in chain.w.packets.iter().filter(|p| p.sender == who.contract) {
        if let Some((_, a, _, _)) = sn.packets.get(&p.seq) {
            out.push((format!("C07:I7 packet {} recorded amount = escrowed amount", p.seq), t::eq(a, &p.amount)));
        }
    }
    out.push(("C02:ghost unsolicited native >= 0".into(), t::ge(&g.don_n, "0")));
    out.push(("C03:ghost unsolicited LST >= 0".into(), t::ge(&g.don_l, "0")));
    out
}

#[derive(Clone, Copy, Debug, PartialEq)]
pub enum Envelope {
    /// only 128-bit representability
    Full,
    /// C16: inputs <= 10^27, totals <= 10^30, rate in [10^-3, 10^3]
    C16,
}

pub fn assume_envelope(sn: &Snap, chain: &Chain, g: &Ghost, env: Envelope) {
    if env == Envelope::C16 {
        let who = &chain.who;
        let lst = who.lst_denom();
        for x in [&sn.n, &sn.l, &sn.fees, &sn.rewards, &g.don_n, &g.don_l, &g.delivered, &g.swept] {
            symcore::assume(t::le(x, t::E30));
        }
        symcore::assume(t::le(&chain.bal(&who.contract, addr::NATIVE_DENOM), t::E30));
        symcore::assume(t::le(&chain.bal(&who.contract, &lst), t::E30));
        for b in sn.batches.values() {
            symcore::assume(t::le(&b.total, t::E30));
            if let Some(e) = &b.expected {
                symcore::assume(t::le(e, t::E30));
            }
            if let Some(r) = &b.received {
                symcore::assume(t::le(r, t::E30));
            }
        }
        for (_, a) in &sn.reqs {
            symcore::assume(t::le(a, t::E27));
        }
        for (_, p) in &sn.packets {
            symcore::assume(t::le(&p.1, t::E27));
        }
        // exchange rate within [10^-3, 10^3] whenever a rate exists
        symcore::assume(t::implies(&t::gt(&sn.l, "0"), &t::and(&[t::le(&sn.n, &t::mul("1000", &sn.l)), t::le(&sn.l, &t::mul("1000", &sn.n))])));
    }
}

pub fn assume_inv(chain: &Chain, g: &Ghost, env: Envelope) -> Snap {
    let sn = snap(chain);
    let mut bad = inv_structural(&sn, chain, g);
    // the start state is written through the contract's own storage types; when reading it back through the same types
    // disagrees (an index that cannot decode its entries), that is a finding about the code, not a harness error
    if bad.iter().any(|c| c.starts_with("I5: by_user index")) {
        symcore::prove("C05:I5: by_user index and primary request map agree on a store written through the contract's IndexedMap", "false".into());
        symcore::prove("C17:the by_user index reads back every request stored through the contract's IndexedMap", "false".into());
        bad.retain(|c| !c.starts_with("I5: by_user index"));
    }
    assert!(bad.is_empty(), "SYMX-HARNESS: built structure violates the structural invariant: {bad:?}");
    for (_, c) in inv_terms(&sn, chain, g) {
        symcore::assume(c);
    }
    for x in [&g.delivered, &g.swept] {
        symcore::assume(t::ge(x, "0"));
    }
    for (_, p) in &g.paid {
        symcore::assume(t::ge(p, "0"));
    }
    assume_envelope(&sn, chain, g, env);
    sn
}

// ---------------------------------------------------------------------------------------------
// structure family (DESIGN 4.3)
// ---------------------------------------------------------------------------------------------

fn bs(status: St, reqs: &[usize], withdrawn: u64, due: i64) -> BatchSpec {
    BatchSpec { status, reqs: reqs.to_vec(), withdrawn, due }
}
fn ps(seq: u64, denom: PDenom, recv: PRecv, status: PacketLifecycleStatus) -> PacketSpec {
    PacketSpec { seq, denom, recv, status }
}

/// Core family, always explored completely.
pub fn core_structures(cfg: &CfgSpec) -> Vec<Structure> {
    use PacketLifecycleStatus::*;
    let mut v = vec![];
    let mut add = |name: &str, batches: Vec<BatchSpec>, packets: Vec<PacketSpec>, nonempty: bool| {
        v.push(Structure { name: format!("{}/{}", cfg.name(), name), cfg: cfg.clone(), batches, packets, nonempty_pool: nonempty, id_base: 0 });
    };
    // S0: fresh pool (pending batch only, nothing requested)
    add("empty", vec![bs(St::Pending, &[], 0, 1)], vec![], false);
    // S1: pending batch with two requesters, due now
    add("pend2", vec![bs(St::Pending, &[0, 1], 0, 0)], vec![], true);
    // S2: submitted (due now) + pending with one request (not yet due)
    add("sub+pend", vec![bs(St::Submitted, &[0, 1], 0, 0), bs(St::Pending, &[0], 0, 1)], vec![], true);
    // S3: received (one of three already withdrew) + submitted (not due) + pending
    add("rec+sub+pend", vec![bs(St::Received, &[0, 1], 1, 0), bs(St::Submitted, &[1], 0, 1), bs(St::Pending, &[], 0, -1)], vec![], true);
    // S4: received, nobody withdrew, single requester + pending due
    add("rec1+pend", vec![bs(St::Received, &[0], 0, 0), bs(St::Pending, &[1], 0, -1)], vec![], true);
    // S5: packets: one in flight to the staker, one refundable to the staker, one refundable LST to a native user
    add(
        "packets",
        vec![bs(St::Pending, &[0], 0, 0)],
        vec![ps(3, PDenom::Native, PRecv::Staker, Sent), ps(5, PDenom::Native, PRecv::Staker, AckFailure), ps(6, PDenom::Lst, PRecv::N1, TimedOut)],
        true,
    );
    // S6: two refundable native packets to the staker + one refundable native to the staker timed out + one LST in flight
    add(
        "refund2",
        vec![bs(St::Received, &[0, 1], 0, 0), bs(St::Pending, &[], 0, 1)],
        vec![ps(2, PDenom::Native, PRecv::Staker, AckFailure), ps(4, PDenom::Native, PRecv::Staker, TimedOut), ps(7, PDenom::Lst, PRecv::N1, Sent)],
        true,
    );
    // S7: refundable transfers of both denoms toward the same receiver (the staker's own native address)
    add(
        "mixedstaker",
        vec![bs(St::Pending, &[1], 0, 1)],
        vec![ps(1, PDenom::Native, PRecv::Staker, AckFailure), ps(2, PDenom::Lst, PRecv::Staker, TimedOut), ps(3, PDenom::Lst, PRecv::N1, AckFailure)],
        true,
    );
    // S10: three / four refundable transfers toward one receiver in denom patterns that only pairwise checks would accept
    let pat = |name: &str, ds: &[PDenom]| -> (String, Vec<PacketSpec>) {
        (name.to_string(), ds.iter().enumerate().map(|(i, d)| ps(i as u64 + 1, d.clone(), PRecv::Staker, if i % 2 == 0 { AckFailure } else { TimedOut })).collect())
    };
    for (n, pk) in [pat("denNNL", &[PDenom::Native, PDenom::Native, PDenom::Lst]), pat("denLLN", &[PDenom::Lst, PDenom::Lst, PDenom::Native]), pat("denNNLL", &[PDenom::Native, PDenom::Native, PDenom::Lst, PDenom::Lst]), pat("denNLL", &[PDenom::Native, PDenom::Lst, PDenom::Lst])] {
        add(&n, vec![bs(St::Received, &[0], 0, 0), bs(St::Pending, &[1], 0, 1)], pk, true);
    }
    // S9: a single transfer still in flight / a single refundable one (forced recovery of the whole table)
    add("onesent", vec![bs(St::Pending, &[], 0, 1)], vec![ps(9, PDenom::Native, PRecv::Staker, Sent)], true);
    add("onefailed", vec![bs(St::Pending, &[0], 0, 0)], vec![ps(8, PDenom::Native, PRecv::Staker, TimedOut)], true);
    // S8: as S7 with the LST transfer first in sequence order
    add(
        "mixedstaker2",
        vec![bs(St::Pending, &[0], 0, 1)],
        vec![ps(1, PDenom::Lst, PRecv::Staker, TimedOut), ps(2, PDenom::Native, PRecv::Staker, AckFailure), ps(4, PDenom::Native, PRecv::Staker, Sent)],
        true,
    );
    v
}

/// Extended family (thorough tier; the quick tier picks a seed-dependent subset).
pub fn extended_structures(cfg: &CfgSpec) -> Vec<Structure> {
    use PacketLifecycleStatus::*;
    let mut v = vec![];
    let mut add = |name: &str, batches: Vec<BatchSpec>, packets: Vec<PacketSpec>, nonempty: bool| {
        v.push(Structure { name: format!("{}/{}", cfg.name(), name), cfg: cfg.clone(), batches, packets, nonempty_pool: nonempty, id_base: 0 });
    };
    add("pend3", vec![bs(St::Pending, &[0, 1, 2], 0, -1)], vec![], true);
    add("rec3w2", vec![bs(St::Received, &[2], 2, 0), bs(St::Pending, &[0], 0, 0)], vec![], true);
    // many batches unbonding at once (a week of daily batches with a two-week unbonding period, and more)
    for n in [7usize, 8, 15] {
        let mut shape: Vec<BatchSpec> = (0..n).map(|k| bs(St::Submitted, &[k % 3], 0, 1)).collect();
        shape.push(bs(St::Pending, &[1], 0, -1));
        add(&format!("sub{n}+pend"), shape, vec![], true);
    }
    add("rec+rec+pend", vec![bs(St::Received, &[0, 1], 0, 0), bs(St::Received, &[0], 1, 0), bs(St::Pending, &[1], 0, 0)], vec![], true);
    // batches are received in any order (the operator names the batch): an older batch still unbonding behind a finished one
    add("sub+rec+pend", vec![bs(St::Submitted, &[0, 1], 0, 0), bs(St::Received, &[1], 0, 0), bs(St::Pending, &[0], 0, 1)], vec![], true);
    add("sub+rec+sub+pend", vec![bs(St::Submitted, &[0], 0, 1), bs(St::Received, &[0, 1], 1, 0), bs(St::Submitted, &[2], 0, 0), bs(St::Pending, &[], 0, -1)], vec![], true);
    add("sub+sub+pend", vec![bs(St::Submitted, &[0], 0, -1), bs(St::Submitted, &[0, 1], 0, 1), bs(St::Pending, &[0, 1], 0, -1)], vec![], true);
    add("4batches", vec![bs(St::Received, &[0], 1, 0), bs(St::Received, &[1, 2], 0, 0), bs(St::Submitted, &[0, 1, 2], 0, 0), bs(St::Pending, &[2], 0, 0)], vec![], true);
    add(
        "mixedrecv",
        vec![bs(St::Pending, &[0], 0, 0)],
        vec![ps(1, PDenom::Lst, PRecv::N1, AckFailure), ps(2, PDenom::Lst, PRecv::N2, AckFailure), ps(3, PDenom::Lst, PRecv::N1, TimedOut), ps(9, PDenom::Native, PRecv::Staker, Sent)],
        true,
    );
    add(
        "mixeddenom",
        vec![bs(St::Pending, &[], 0, 1)],
        vec![ps(1, PDenom::Native, PRecv::N1, AckFailure), ps(2, PDenom::Lst, PRecv::N1, AckFailure)],
        true,
    );
    // page-size boundary of recover: 11 refundable packets to the staker
    let many: Vec<PacketSpec> = (1..=11).map(|i| ps(i, PDenom::Native, PRecv::Staker, if i % 2 == 0 { AckFailure } else { TimedOut })).collect();
    add("refund11", vec![bs(St::Pending, &[], 0, 1)], many, true);
    drop(add);
    // batch ids around the byte boundaries of their big-endian keys (127|128, 255|256) behind a prefix of finished batches,
    // and far beyond (2^32, 2^63) with that prefix left out
    for (nm, base) in [("ids127", 125u64), ("ids255", 253), ("ids2p32", (1u64 << 32) - 2), ("ids2p63", (1u64 << 63) - 2)] {
        v.push(Structure { name: format!("{}/{}", cfg.name(), nm), cfg: cfg.clone(), batches: vec![bs(St::Received, &[0, 1], 1, 0), bs(St::Received, &[1], 0, 0), bs(St::Submitted, &[0, 1], 0, 0), bs(St::Pending, &[0, 2], 0, -1)], packets: vec![], nonempty_pool: true, id_base: base });
    }
    v
}


/// Systematically generated structures: every batch shape of up to three batches (no packets) and every set of up to
/// two tracked transfers (one simple batch shape). Thorough tier: all of them for the base configuration; quick: a seed-dependent handful.
pub fn generated_structures(cfg: &CfgSpec) -> Vec<Structure> {
    use PacketLifecycleStatus::*;
    let mut v = vec![];
    let subsets: [&[usize]; 4] = [&[], &[0], &[1], &[0, 1]];
    // batch shapes
    let mut shapes: Vec<Vec<BatchSpec>> = vec![];
    for reqs in subsets {
        for due in [-1i64, 0, 1] {
            shapes.push(vec![bs(St::Pending, reqs, 0, due)]);
        }
    }
    let olds: Vec<BatchSpec> = {
        let mut o = vec![];
        for reqs in subsets {
            for due in [0i64, 1] {
                if !reqs.is_empty() {
                    o.push(bs(St::Submitted, reqs, 0, due));
                }
            }
            for w in [0u64, 1] {
                if !reqs.is_empty() || w > 0 {
                    o.push(bs(St::Received, reqs, w, 0));
                }
            }
        }
        o
    };
    for o in &olds {
        for preqs in [&[][..], &[0][..]] {
            for due in [0i64, 1] {
                shapes.push(vec![o.clone(), bs(St::Pending, preqs, 0, due)]);
            }
        }
    }
    for (i, o1) in olds.iter().enumerate() {
        for (j, o2) in olds.iter().enumerate() {
            if (i + 2 * j) % 5 == 0 {
                shapes.push(vec![o1.clone(), o2.clone(), bs(St::Pending, &[1], 0, 0)]);
            }
        }
    }
    for (k, sh) in shapes.into_iter().enumerate() {
        v.push(Structure { name: format!("{}/gen-b{k}", cfg.name()), cfg: cfg.clone(), batches: sh, packets: vec![], nonempty_pool: true, id_base: 0 });
    }
    // packet sets
    let mut kinds = vec![];
    for d in [PDenom::Native, PDenom::Lst] {
        for r in [PRecv::Staker, PRecv::N1] {
            for st in [Sent, AckFailure, TimedOut] {
                kinds.push((d.clone(), r.clone(), st));
            }
        }
    }
    let mut k = 0;
    for (i, a) in kinds.iter().enumerate() {
        v.push(Structure { name: format!("{}/gen-p{k}", cfg.name()), cfg: cfg.clone(), batches: vec![bs(St::Pending, &[0], 0, 0)], packets: vec![ps(3, a.0.clone(), a.1.clone(), a.2.clone())], nonempty_pool: true, id_base: 0 });
        k += 1;
        for b in kinds.iter().skip(i) {
            v.push(Structure { name: format!("{}/gen-p{k}", cfg.name()), cfg: cfg.clone(), batches: vec![bs(St::Pending, &[0], 0, 0)], packets: vec![ps(3, a.0.clone(), a.1.clone(), a.2.clone()), ps(5, b.0.clone(), b.1.clone(), b.2.clone())], nonempty_pool: true, id_base: 0 });
            k += 1;
        }
    }
    for len in [3usize, 4] {
        for code in 0..(1u32 << len) {
            let pk: Vec<PacketSpec> = (0..len).map(|i| ps(i as u64 + 1, if code >> i & 1 == 0 { PDenom::Native } else { PDenom::Lst }, PRecv::Staker, if i % 2 == 0 { TimedOut } else { AckFailure })).collect();
            v.push(Structure { name: format!("{}/gen-q{len}-{code}", cfg.name()), cfg: cfg.clone(), batches: vec![bs(St::Pending, &[0], 0, 0)], packets: pk, nonempty_pool: true, id_base: 0 });
        }
    }
    v
}
