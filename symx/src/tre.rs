//! C13 / C12 / C16 for the treasury contract: trader-only swaps on allow-listed routes, admin-only
//! spending and configuration. Coin amounts and limits are symbolic (solver-decided fidelity of the
//! emitted Osmosis messages); allow-lists, candidate routes and principals are enumerated from a
//! stated small alphabet (labelled as enumeration in the evidence).
#![allow(dead_code)]
use crate::addr::{self, Who};
use crate::step::{claim, prove, Filter};
use crate::suites::Case;
use crate::t;
use crate::world::{Chain, Emitted};
use cosmwasm_std::testing::{mock_dependencies, MockApi, MockQuerier, MockStorage};
use cosmwasm_std::{Addr, Coin, Env, MessageInfo, OwnedDeps, Response, Timestamp, Uint128};
use treasury::msg::{ExecuteMsg, InstantiateMsg};
use treasury::state::SwapRoute;

type D = OwnedDeps<MockStorage, MockApi, MockQuerier>;

const A: &str = "uosmo";
const B: &str = "ibc/C3E53D20BC7A4CC993B17C7971F8ECD06A433C10B6A96F4C4C3714F0624C56DA";
const C: &str = "factory/osmo1xyz/umilkTIA";
// denoms that re-split the same characters around a `/` (an allow-list test on a joined string would confuse them)
const C_HEAD: &str = "factory/osmo1xyz";
const C_TAIL_A: &str = "umilkTIA/uosmo";
const A_C_HEAD: &str = "uosmo/factory";
const C_REST: &str = "osmo1xyz/umilkTIA";

fn hop(pool: u64, i: &str, o: &str) -> SwapRoute {
    SwapRoute { pool_id: pool, token_in_denom: i.to_string(), token_out_denom: o.to_string() }
}

/// hop alphabet: the hops used by the allow-lists plus foreign pools / swapped denoms
pub fn alphabet() -> Vec<SwapRoute> {
    vec![hop(1, A, B), hop(2, B, C), hop(2, C, A), hop(1, B, A), hop(3, A, B), hop(1, A, C)]
}

pub fn allow_lists() -> Vec<(&'static str, Vec<Vec<SwapRoute>>)> {
    vec![
        ("single", vec![vec![hop(1, A, B)]]),
        ("two", vec![vec![hop(1, A, B), hop(2, B, C)], vec![hop(2, C, A)]]),
        ("empty", vec![]),
        ("prefixes", vec![vec![hop(1, A, B)], vec![hop(1, A, B), hop(1, B, A)], vec![hop(1, A, B), hop(2, B, C), hop(2, C, A)]]),
        ("hasempty", vec![vec![], vec![hop(2, C, A)]]),
        // two routes of the same length that differ in every position (cross-overs must be refused)
        ("cross", vec![vec![hop(1, A, B), hop(2, B, C)], vec![hop(3, A, B), hop(1, B, A)]]),
    ]
}

pub fn candidates(max_len: usize) -> Vec<Vec<SwapRoute>> {
    let al = alphabet();
    let mut out: Vec<Vec<SwapRoute>> = vec![vec![]];
    let mut frontier: Vec<Vec<SwapRoute>> = vec![vec![]];
    for _ in 0..max_len {
        let mut next = vec![];
        for r in &frontier {
            for h in &al {
                let mut r2 = r.clone();
                r2.push(h.clone());
                next.push(r2);
            }
        }
        out.extend(next.clone());
        frontier = next;
    }
    out
}

fn env(who: &Who) -> Env {
    let mut e = cosmwasm_std::testing::mock_env();
    e.contract.address = Addr::unchecked(who.contract.clone());
    e.block.time = Timestamp::from_seconds(1_700_000_000);
    e
}
fn info(s: &str) -> MessageInfo {
    MessageInfo { sender: Addr::unchecked(s), funds: vec![] }
}

fn setup(who: &Who, routes: Vec<Vec<SwapRoute>>) -> D {
    let mut deps = mock_dependencies();
    let msg = InstantiateMsg { admin: Some(who.admin.clone()), trader: Some(who.u1.clone()), allowed_swap_routes: routes };
    treasury::contract::instantiate(deps.as_mut(), env(who), info(&who.ex_admin), msg).expect("SYMX-HARNESS: treasury instantiate");
    deps
}

fn exec(deps: &mut D, who: &Who, sender: &str, msg: ExecuteMsg) -> Result<Result<Response, String>, String> {
    let e = env(who);
    symcore::catch(|| treasury::contract::execute(deps.as_mut(), e, info(sender), msg).map_err(|e| e.to_string()))
}

fn route_name(r: &[SwapRoute]) -> String {
    let short = |d: &str| -> String { if d == A { "A".into() } else if d == B { "B".into() } else if d == C { "C".into() } else { format!("[{}]", d.replace('/', "|")) } };
    r.iter().map(|h| format!("{}{}{}", h.pool_id, short(&h.token_in_denom), short(&h.token_out_denom))).collect::<Vec<_>>().join("-")
}

fn finish(f: &Filter, r: &Result<Result<Response, String>, String>) {
    match r {
        Err(p) => {
            prove(f, &format!("C16:no panic [{}]", crate::step::panic_key(p)), "false".into());
            symcore::note("outcome=panic".into());
        }
        Ok(Ok(_)) => {
            claim(f, "C16:entry point returned a result or a typed error", true);
            symcore::note("outcome=ok".into());
        }
        Ok(Err(_)) => {
            claim(f, "C16:entry point returned a result or a typed error", true);
            symcore::note("outcome=err".into());
        }
    }
}

pub fn swap_case(list_name: &'static str, routes: Vec<Vec<SwapRoute>>, cand: Vec<SwapRoute>, exact_in: bool, sender: &'static str, coin_denom: &'static str) -> Case {
    let short = |d: &str| -> String { if d == A { "A".into() } else if d == B { "B".into() } else if d == C { "C".into() } else { d.replace('/', "|") } };
    let name = format!("tre:{list_name}:{}:{}:{sender}:{}", if exact_in { "in" } else { "out" }, route_name(&cand), short(coin_denom));
    Case {
        name,
        run: Box::new(move |f: &Filter, _mw: bool| {
            let who = Who::new(false);
            let mut deps = setup(&who, routes.clone());
            let amt = Uint128::new(symcore::var("amt"));
            let lim = symcore::var("lim");
            let s = match sender {
                "trader" => who.u1.clone(),
                "admin" => who.admin.clone(),
                _ => who.u2.clone(),
            };
            let coin = Coin { denom: coin_denom.to_string(), amount: amt };
            let msg = if exact_in { ExecuteMsg::SwapExactAmountIn { routes: cand.clone(), token_in: coin, token_out_min_amount: lim } } else { ExecuteMsg::SwapExactAmountOut { routes: cand.clone(), token_out: coin, token_in_max_amount: lim } };
            let before = crate::world::dump(&deps.storage);
            let r = exec(&mut deps, &who, &s, msg);
            finish(f, &r);
            let listed = !cand.is_empty() && routes.iter().any(|a| *a == cand);
            let endpoint = if cand.is_empty() {
                false
            } else if exact_in {
                cand[0].token_in_denom == coin_denom
            } else {
                cand[cand.len() - 1].token_out_denom == coin_denom
            };
            let expect_ok = sender == "trader" && listed && endpoint;
            let got_ok = matches!(r, Ok(Ok(_)));
            claim(f, "C13:swap succeeds exactly for the trader on an allow-listed route whose end-point denom matches the offered coin", got_ok == expect_ok || matches!(r, Err(_)));
            claim(f, "C13:a swap never changes the treasury's storage", crate::world::dump(&deps.storage) == before);
            if let Ok(Ok(resp)) = &r {
                let chain = Chain::new(who.clone());
                claim(f, "C13:swap emits exactly one message", resp.messages.len() == 1);
                if let Some(m) = resp.messages.first() {
                    match chain.decode(&m.msg, None) {
                        Ok(Emitted::SwapIn { sender: ms, routes: rs, token_in, min_out }) => {
                            claim(f, "C13:exact-in request emits MsgSwapExactAmountIn with the treasury as sender", exact_in && ms == who.contract);
                            claim(f, "C13:emitted route reproduces the requested hops (pool, out denom) in order", rs == cand.iter().map(|h| (h.pool_id, h.token_out_denom.clone())).collect::<Vec<_>>());
                            claim(f, "C13:emitted coin denom is the offered denom", token_in.0 == coin_denom);
                            prove(f, "C13:emitted coin amount is the offered amount", t::eq(&token_in.1, &t::ut(amt)));
                            prove(f, "C13:emitted limit is the requested limit", t::eq(&min_out, &t::u(lim)));
                        }
                        Ok(Emitted::SwapOut { sender: ms, routes: rs, token_out, max_in }) => {
                            claim(f, "C13:exact-out request emits MsgSwapExactAmountOut with the treasury as sender", !exact_in && ms == who.contract);
                            claim(f, "C13:emitted route reproduces the requested hops (pool, in denom) in order", rs == cand.iter().map(|h| (h.pool_id, h.token_in_denom.clone())).collect::<Vec<_>>());
                            claim(f, "C13:emitted coin denom is the offered denom", token_out.0 == coin_denom);
                            prove(f, "C13:emitted coin amount is the offered amount", t::eq(&token_out.1, &t::ut(amt)));
                            prove(f, "C13:emitted limit is the requested limit", t::eq(&max_in, &t::u(lim)));
                        }
                        other => claim(f, &format!("C13:swap message decodes as an Osmosis poolmanager swap [{other:?}]"), false),
                    }
                }
            }
        }),
    }
}

pub fn spend_case(sender: &'static str, receiver: &'static str, channel: Option<&'static str>) -> Case {
    let name = format!("tre:spend:{sender}:{receiver}:{}", channel.unwrap_or("local"));
    Case {
        name,
        run: Box::new(move |f: &Filter, _mw: bool| {
            let who = Who::new(false);
            let mut deps = setup(&who, vec![]);
            let amt = Uint128::new(symcore::var("amt"));
            let s = match sender {
                "trader" => who.u1.clone(),
                "admin" => who.admin.clone(),
                _ => who.u2.clone(),
            };
            let recv = match receiver {
                "proto" => who.u3.clone(),
                "native" => who.n1.clone(),
                "other" => addr::addr("cosmos", 9, 20),
                "multi" => format!("osm\u{e9}{}", &who.u3[4..]),
                "multi2" => format!("celesti\u{1F600}{}", &who.n1[9..]),
                _ => "garbage".to_string(),
            };
            let coin = Coin { denom: B.to_string(), amount: amt };
            let before = crate::world::dump(&deps.storage);
            let r = exec(&mut deps, &who, &s, ExecuteMsg::SpendFunds { amount: coin, receiver: recv.clone(), channel_id: channel.map(|c| c.to_string()) });
            finish(f, &r);
            let expect_ok = sender == "admin" && ((channel.is_none() && receiver == "proto") || (channel.is_some() && receiver == "native"));
            claim(f, "C13:spending succeeds exactly for the admin, locally to protocol-chain addresses and over IBC to native-chain addresses", matches!(r, Ok(Ok(_))) == expect_ok || matches!(r, Err(_)));
            claim(f, "C13:spending never changes the treasury's storage", crate::world::dump(&deps.storage) == before);
            if let Ok(Ok(resp)) = &r {
                let chain = Chain::new(who.clone());
                claim(f, "C13:spend emits exactly one message", resp.messages.len() == 1);
                if let Some(m) = resp.messages.first() {
                    match chain.decode(&m.msg, None) {
                        Ok(Emitted::Send { to, coins, .. }) => {
                            claim(f, "C13:local spend is a bank send to the requested receiver", channel.is_none() && to == recv && coins.len() == 1 && coins[0].0 == B);
                            prove(f, "C13:spent amount is exactly the requested amount", t::eq(&coins[0].1, &t::ut(amt)));
                        }
                        Ok(Emitted::Transfer { sender: ms, receiver: r2, denom, amount, channel: ch, port, timeout_ns, .. }) => {
                            claim(f, "C13:IBC spend is a transfer from the treasury to the requested receiver on the requested channel", channel == Some(ch.as_str()) && ms == who.contract && r2 == recv && denom == B && port == "transfer" && timeout_ns > 1_700_000_000u64 * 1_000_000_000);
                            prove(f, "C13:spent amount is exactly the requested amount", t::eq(&amount, &t::ut(amt)));
                        }
                        other => claim(f, &format!("C13:spend message decodes as a bank send or an IBC transfer [{other:?}]"), false),
                    }
                }
            }
        }),
    }
}

/// UpdateConfig authorization and its effect on later swaps, for every shape of the message: trader and allow-list
/// each absent / re-sent unchanged / changed. Afterwards exactly (configured trader, configured route) pairs can swap.
pub fn config_case(sender: &'static str, trader_kind: u8, routes_kind: u8) -> Case {
    Case {
        name: format!("tre:config:{sender}:t{trader_kind}:r{routes_kind}"),
        run: Box::new(move |f: &Filter, _mw: bool| {
            let who = Who::new(false);
            let old_routes = vec![vec![hop(1, A, B)]];
            let new_routes = vec![vec![hop(2, C, A)]];
            let mut deps = setup(&who, old_routes.clone());
            let s = match sender {
                "trader" => who.u1.clone(),
                "admin" => who.admin.clone(),
                _ => who.u2.clone(),
            };
            let trader_arg = match trader_kind {
                0 => None,
                1 => Some(who.u1.clone()),
                _ => Some(who.u3.clone()),
            };
            let routes_arg = match routes_kind {
                0 => None,
                1 => Some(old_routes.clone()),
                _ => Some(new_routes.clone()),
            };
            let before = crate::world::dump(&deps.storage);
            let r = exec(&mut deps, &who, &s, ExecuteMsg::UpdateConfig { trader: trader_arg.clone(), allowed_swap_routes: routes_arg.clone() });
            finish(f, &r);
            claim(f, "C13:treasury UpdateConfig only for the admin", matches!(r, Ok(Ok(_))) == (sender == "admin") || matches!(r, Err(_)));
            let applied = matches!(r, Ok(Ok(_)));
            if !applied {
                claim(f, "C13:refused UpdateConfig changes nothing", crate::world::dump(&deps.storage) == before);
            }
            let exp_trader = if applied { trader_arg.unwrap_or(who.u1.clone()) } else { who.u1.clone() };
            let exp_routes = if applied { routes_arg.unwrap_or(old_routes.clone()) } else { old_routes.clone() };
            let cfg = treasury::state::CONFIG.load(&deps.storage).expect("SYMX-HARNESS: treasury config");
            claim(f, "C13:after UpdateConfig the stored trader and allow-list are exactly the supplied values (absent = unchanged)", cfg.trader.as_str() == exp_trader && cfg.allowed_swap_routes == exp_routes);
            let amt = Uint128::new(symcore::var("amt"));
            let lim = symcore::var("lim");
            for trader in [who.u1.clone(), who.u3.clone(), who.admin.clone()] {
                for route in [hop(1, A, B), hop(2, C, A)] {
                    let got = exec(&mut deps, &who, &trader, ExecuteMsg::SwapExactAmountIn { routes: vec![route.clone()], token_in: Coin { denom: route.token_in_denom.clone(), amount: amt }, token_out_min_amount: lim });
                    let expect = trader == exp_trader && exp_routes.iter().any(|x| *x == vec![route.clone()]);
                    claim(f, "C13:after a config update exactly the configured trader swaps on exactly the configured routes", matches!(got, Ok(Ok(_))) == expect || matches!(got, Err(_)));
                    if let Err(p) = &got {
                        prove(f, &format!("C16:no panic [{}]", crate::step::panic_key(p)), "false".into());
                    }
                }
            }
            let q = treasury::contract::query(deps.as_ref(), env(&who), treasury::msg::QueryMsg::Config {});
            claim(f, "C16:treasury query returns a result", q.is_ok());
        }),
    }
}

/// Treasury instantiation: the admin is the designated account (or the instantiator when none is designated), the trader
/// likewise, and no nomination is pending: nobody can "accept" an ownership nobody transferred (C12 / C13).
pub fn instantiate_case(admin_kind: u8, trader_kind: u8) -> Case {
    Case {
        name: format!("tre:instantiate:a{admin_kind}:t{trader_kind}"),
        run: Box::new(move |f: &Filter, _mw: bool| {
            let who = Who::new(false);
            let sender = who.ex_admin.clone();
            let pick = |k: u8| match k {
                0 => None,
                1 => Some(sender.clone()),
                _ => Some(who.u3.clone()),
            };
            let (admin_arg, trader_arg) = (pick(admin_kind), pick(trader_kind));
            let mut deps = mock_dependencies();
            let msg = InstantiateMsg { admin: admin_arg.clone(), trader: trader_arg.clone(), allowed_swap_routes: vec![vec![hop(1, A, B)]] };
            let e = env(&who);
            let r = symcore::catch(|| treasury::contract::instantiate(deps.as_mut(), e, info(&sender), msg).map_err(|e| e.to_string()));
            finish(f, &r);
            claim(f, "C13:treasury instantiation with well-formed addresses succeeds", matches!(r, Ok(Ok(_))));
            if !matches!(r, Ok(Ok(_))) {
                return;
            }
            let want_admin = admin_arg.unwrap_or(sender.clone());
            let want_trader = trader_arg.unwrap_or(sender.clone());
            let admin = treasury::state::ADMIN.get(deps.as_ref()).ok().flatten().map(|a| a.to_string());
            let st = treasury::state::STATE.load(&deps.storage).expect("SYMX-HARNESS: treasury state");
            let cfg = treasury::state::CONFIG.load(&deps.storage).expect("SYMX-HARNESS: treasury config");
            claim(f, "C12:a new treasury has the designated admin (the instantiator when none is designated) and no pending nomination or lock", admin.as_deref() == Some(want_admin.as_str()) && st.pending_owner.is_none() && st.owner_transfer_min_time.is_none());
            claim(f, "C13:a new treasury has the designated trader (the instantiator when none is designated) and the supplied allow-list", cfg.trader.as_str() == want_trader && cfg.allowed_swap_routes == vec![vec![hop(1, A, B)]]);
            // nobody can accept an ownership that was never transferred, at any time
            for who_tries in [who.u3.clone(), sender.clone(), who.admin.clone()] {
                let r = exec(&mut deps, &who, &who_tries, ExecuteMsg::AcceptOwnership {});
                claim(f, "C12:AcceptOwnership on a new treasury is refused for everybody", !matches!(r, Ok(Ok(_))));
            }
            let admin2 = treasury::state::ADMIN.get(deps.as_ref()).ok().flatten().map(|a| a.to_string());
            claim(f, "C12:failed acceptance leaves the admin alone", admin2.as_deref() == Some(want_admin.as_str()));
        }),
    }
}

/// Treasury migrate: version gate (C18's treasury anchor) and no panic (C16).
pub fn migrate_case(name: &'static str, ver: &'static str) -> Case {
    Case {
        name: format!("tre:migrate:{name}:{ver}"),
        run: Box::new(move |f: &Filter, _mw: bool| {
            let who = Who::new(false);
            let mut deps = setup(&who, vec![]);
            cw2::set_contract_version(&mut deps.storage, name, ver).unwrap();
            let before = crate::world::dump(&deps.storage);
            let e = env(&who);
            let r = symcore::catch(|| treasury::contract::migrate(deps.as_mut(), e, treasury::msg::MigrateMsg {}).map_err(|e| e.to_string()));
            finish(f, &r);
            let current: Vec<u64> = env!("CARGO_PKG_VERSION").split('.').map(|_| 0).collect();
            let _ = current;
            let newer = |v: &str| -> Option<bool> {
                let p: Vec<u64> = v.split('.').map(|x| x.parse::<u64>().ok()).collect::<Option<Vec<_>>>()?;
                if p.len() != 3 {
                    return None;
                }
                Some((p[0], p[1], p[2]) < (0, 4, 20))
            };
            let expect_ok = name == "treasury" && newer(ver) == Some(true);
            claim(f, "C18:treasury migration succeeds only for the same contract name from an older version", matches!(r, Ok(Ok(_))) == expect_ok || r.is_err());
            if !matches!(r, Ok(Ok(_))) {
                claim(f, "C18:a refused treasury migration changes nothing", crate::world::dump(&deps.storage) == before);
            }
        }),
    }
}

/// Systematic allow-list family: every list of one or two routes drawn from a pool of routes of 1-3 hops
/// (thorough: the whole pool of 16; quick: a seed-independent pool of 9), against every candidate of <= 2 (3) hops.
pub fn route_pool(tier: &str) -> Vec<Vec<SwapRoute>> {
    let al = alphabet();
    let mut pool: Vec<Vec<SwapRoute>> = vec![];
    for h in al.iter().take(4) {
        pool.push(vec![h.clone()]);
    }
    let _ = tier;
    let pairs: &[(usize, usize)] = &[(0, 1), (4, 3), (0, 3), (4, 1), (1, 2), (2, 0), (5, 2), (3, 0)];
    for (a, b) in pairs {
        pool.push(vec![al[*a].clone(), al[*b].clone()]);
    }
    pool.push(vec![al[0].clone(), al[1].clone(), al[2].clone()]);
    {
        pool.push(vec![al[4].clone(), al[1].clone(), al[2].clone()]);
        pool.push(vec![al[0].clone(), al[3].clone(), al[0].clone()]);
        pool.push(vec![al[2].clone(), al[0].clone(), al[1].clone()]);
    }
    pool
}

pub fn cases(tier: &str) -> Vec<Case> {
    let mut v = vec![];
    let pool = route_pool(tier);
    let cand = candidates(if tier == "thorough" { 4 } else { 3 });
    let mut lists: Vec<(String, Vec<Vec<SwapRoute>>)> = vec![];
    for i in 0..pool.len() {
        for j in i + 1..pool.len() {
            lists.push((format!("p{i}+{j}"), vec![pool[i].clone(), pool[j].clone()]));
        }
    }
    for (ln, routes) in lists {
        let ln: &'static str = Box::leak(ln.into_boxed_str());
        for c in &cand {
            for exact_in in [true, false] {
                let endpoint: &'static str = if c.is_empty() {
                    A
                } else {
                    let d = if exact_in { c[0].token_in_denom.clone() } else { c[c.len() - 1].token_out_denom.clone() };
                    if d == A {
                        A
                    } else if d == B {
                        B
                    } else {
                        C
                    }
                };
                v.push(swap_case(ln, routes.clone(), c.clone(), exact_in, "trader", endpoint));
            }
        }
    }
    // `/` inside denoms: candidates that move the in / out boundary of an allow-listed hop across a `/`
    let slash_lists: Vec<(&'static str, Vec<Vec<SwapRoute>>)> = vec![("slashCA", vec![vec![hop(10, C, A)]]), ("slashAC", vec![vec![hop(10, A, C)]]), ("slash2", vec![vec![hop(10, C, A), hop(11, A, B)]])];
    for (ln, routes) in slash_lists {
        let cands = vec![
            vec![hop(10, C, A)],
            vec![hop(10, A, C)],
            vec![hop(10, C_HEAD, C_TAIL_A)],
            vec![hop(10, A_C_HEAD, C_REST)],
            vec![hop(10, C_HEAD, C_TAIL_A), hop(11, A, B)],
            vec![hop(10, C, A), hop(11, A, B)],
        ];
        for cand in cands {
            for exact_in in [true, false] {
                for coin in [A, C, C_HEAD, C_TAIL_A, A_C_HEAD, C_REST, B] {
                    v.push(swap_case(ln, routes.clone(), cand.clone(), exact_in, "trader", coin));
                }
            }
        }
    }
    for name in ["treasury", "staking"] {
        for ver in ["0.4.19", "0.4.20", "0.4.21", "0.3.0", "1.0.0", "garbage"] {
            v.push(migrate_case(name, ver));
        }
    }
    let max_len = if tier == "thorough" { 4 } else { 3 };
    for (ln, routes) in allow_lists() {
        for cand in candidates(max_len) {
            // denominations offered: the matching end-point and one mismatching denom
            for exact_in in [true, false] {
                let endpoint: &'static str = if cand.is_empty() {
                    A
                } else {
                    let d = if exact_in { cand[0].token_in_denom.clone() } else { cand[cand.len() - 1].token_out_denom.clone() };
                    if d == A {
                        A
                    } else if d == B {
                        B
                    } else {
                        C
                    }
                };
                let listed = routes.iter().any(|a| *a == cand);
                v.push(swap_case(ln, routes.clone(), cand.clone(), exact_in, "trader", endpoint));
                if listed || cand.len() <= 1 {
                    let other: &'static str = if endpoint == A { B } else { A };
                    v.push(swap_case(ln, routes.clone(), cand.clone(), exact_in, "trader", other));
                    v.push(swap_case(ln, routes.clone(), cand.clone(), exact_in, "admin", endpoint));
                    v.push(swap_case(ln, routes.clone(), cand.clone(), exact_in, "other", endpoint));
                }
            }
        }
    }
    for ak in 0..3u8 {
        for tk in 0..3u8 {
            v.push(instantiate_case(ak, tk));
        }
    }
    for s in ["admin", "trader", "other"] {
        for r in ["proto", "native", "other", "garbage", "multi", "multi2"] {
            v.push(spend_case(s, r, None));
            v.push(spend_case(s, r, Some("channel-1")));
            // unusual channel strings are still "a channel was given": an IBC spend, never a local one
            v.push(spend_case(s, r, Some("")));
            v.push(spend_case(s, r, Some(" ")));
            v.push(spend_case(s, r, Some("channel-18446744073709551615")));
        }
        for tk in 0..3u8 {
            for rk in 0..3u8 {
                v.push(config_case(s, tk, rk));
            }
        }
    }
    v
}
