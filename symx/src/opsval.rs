//! Translator validation (DESIGN 2.4 ii): every instrumented `Uint128` / `Decimal` operation is run
//! symbolically with its operands pinned to boundary constants (`A = a` as a path assumption) and the
//! resulting term / error / branch is compared with the stock concrete implementation on the same
//! constants (the guarded prelude is bypassed for concrete operands, so that side is the original code).
#![allow(dead_code)]
use crate::step::{claim, prove, Filter};
use crate::suites::Case;
use crate::t;
use cosmwasm_std::{Decimal, Uint128};

fn boundary() -> Vec<u128> {
    vec![0, 1, 2, 3, 7, 100_000, (1u128 << 64) - 1, 1u128 << 64, (1u128 << 64) + 1, 10u128.pow(18), 10u128.pow(27), 10u128.pow(30), (1u128 << 100) + 12345, (1u128 << 119) + 3]
}

fn pinned(name: &str, v: u128) -> Uint128 {
    let h = symcore::var(name);
    symcore::assume(format!("(= {name} {v})"));
    Uint128::new(h)
}

fn outcome<T: std::fmt::Debug>(r: Result<Result<T, String>, String>) -> String {
    match r {
        Err(p) => format!("panic:{}", p.split(" @ ").next().unwrap_or("")),
        Ok(Err(e)) => format!("err:{}", e.split(':').next().unwrap_or("")),
        Ok(Ok(_)) => "ok".to_string(),
    }
}

type BinOp = fn(Uint128, Uint128) -> Result<Uint128, String>;

fn binops() -> Vec<(&'static str, BinOp)> {
    vec![
        ("add", |a, b| Ok(a + b)),
        ("sub", |a, b| Ok(a - b)),
        ("mul", |a, b| Ok(a * b)),
        ("div", |a, b| Ok(a / b)),
        ("rem", |a, b| Ok(a % b)),
        ("checked_add", |a, b| a.checked_add(b).map_err(|_| "overflow".to_string())),
        ("checked_sub", |a, b| a.checked_sub(b).map_err(|_| "overflow".to_string())),
        ("checked_mul", |a, b| a.checked_mul(b).map_err(|_| "overflow".to_string())),
        ("checked_div", |a, b| a.checked_div(b).map_err(|_| "divzero".to_string())),
        ("checked_rem", |a, b| a.checked_rem(b).map_err(|_| "divzero".to_string())),
        ("saturating_add", |a, b| Ok(a.saturating_add(b))),
        ("saturating_sub", |a, b| Ok(a.saturating_sub(b))),
        ("saturating_mul", |a, b| Ok(a.saturating_mul(b))),
        ("abs_diff_via_cmp", |a, b| Ok(if a < b { b - a } else { a - b })),
        ("min", |a, b| Ok(a.min(b))),
        ("max", |a, b| Ok(a.max(b))),
    ]
}

pub fn bin_case(opi: usize, a: u128, b: u128) -> Case {
    let (name, _) = binops()[opi];
    Case {
        name: format!("ops:{name}:{a}:{b}"),
        run: Box::new(move |f: &Filter, _mw: bool| {
            let (_, op) = binops()[opi];
            let conc = symcore::catch(|| op(Uint128::new(a), Uint128::new(b)));
            let sa = pinned("A", a);
            let sb = pinned("B", b);
            let sym = symcore::catch(|| op(sa, sb));
            let (oc, os) = (outcome(conc.clone()), outcome(sym.clone()));
            claim(f, &format!("C16:ops:{name}: symbolic and stock implementation agree on ok / error / panic"), oc == os);
            if let (Ok(Ok(c)), Ok(Ok(s))) = (conc, sym) {
                prove(f, &format!("C16:ops:{name}: symbolic result term equals the stock result"), t::eq(&t::ut(s), &c.u128().to_string()));
            }
            symcore::note("outcome=ok".into());
        }),
    }
}

pub fn ratio_case(a: u128, n: u128, d: u128) -> Case {
    Case {
        name: format!("ops:ratio:{a}:{n}:{d}"),
        run: Box::new(move |f: &Filter, _mw: bool| {
            // multiply_ratio / checked_multiply_ratio
            let conc = symcore::catch(|| Uint128::new(a).checked_multiply_ratio(n, d).map_err(|e| format!("{e:?}")));
            let (sa, sn, sd) = (pinned("A", a), pinned("N", n), pinned("D", d));
            let sym = symcore::catch(|| sa.checked_multiply_ratio(sn, sd).map_err(|e| format!("{e:?}")));
            claim(f, "C16:ops:checked_multiply_ratio: symbolic and stock implementation agree on ok / error", outcome(conc.clone()) == outcome(sym.clone()));
            if let (Ok(Ok(c)), Ok(Ok(s))) = (&conc, &sym) {
                prove(f, "C16:ops:checked_multiply_ratio: symbolic result term equals the stock result", t::eq(&t::ut(*s), &c.u128().to_string()));
            }
            let concp = symcore::catch(|| Ok::<Uint128, String>(Uint128::new(a).multiply_ratio(n, d)));
            let symp = symcore::catch(|| Ok::<Uint128, String>(sa.multiply_ratio(sn, sd)));
            claim(f, "C16:ops:multiply_ratio: symbolic and stock implementation agree on ok / panic", outcome(concp) == outcome(symp));
            // mul_floor / mul_ceil with the fraction (n, d)
            let cf = symcore::catch(|| Uint128::new(a).checked_mul_floor((n, d)).map_err(|e| format!("{e:?}")));
            let sf = symcore::catch(|| sa.checked_mul_floor((sn, sd)).map_err(|e| format!("{e:?}")));
            claim(f, "C16:ops:checked_mul_floor: symbolic and stock implementation agree on ok / error", outcome(cf.clone()) == outcome(sf.clone()));
            if let (Ok(Ok(c)), Ok(Ok(s))) = (&cf, &sf) {
                prove(f, "C16:ops:checked_mul_floor: symbolic result term equals the stock result", t::eq(&t::ut(*s), &c.u128().to_string()));
            }
            let cc = symcore::catch(|| Uint128::new(a).checked_mul_ceil((n, d)).map_err(|e| format!("{e:?}")));
            let sc = symcore::catch(|| sa.checked_mul_ceil((sn, sd)).map_err(|e| format!("{e:?}")));
            claim(f, "C16:ops:checked_mul_ceil: symbolic and stock implementation agree on ok / error", outcome(cc.clone()) == outcome(sc.clone()));
            if let (Ok(Ok(c)), Ok(Ok(s))) = (&cc, &sc) {
                prove(f, "C16:ops:checked_mul_ceil: symbolic result term equals the stock result", t::eq(&t::ut(*s), &c.u128().to_string()));
            }
            // div_floor / div_ceil with the fraction (n, d): floor / ceil of a * d / n
            let df = symcore::catch(|| Uint128::new(a).checked_div_floor((n, d)).map_err(|e| format!("{e:?}")));
            let sdf = symcore::catch(|| sa.checked_div_floor((sn, sd)).map_err(|e| format!("{e:?}")));
            claim(f, "C16:ops:checked_div_floor: symbolic and stock implementation agree on ok / error", outcome(df.clone()) == outcome(sdf.clone()));
            if let (Ok(Ok(c)), Ok(Ok(s))) = (&df, &sdf) {
                prove(f, "C16:ops:checked_div_floor: symbolic result term equals the stock result", t::eq(&t::ut(*s), &c.u128().to_string()));
            }
            let dc = symcore::catch(|| Uint128::new(a).checked_div_ceil((n, d)).map_err(|e| format!("{e:?}")));
            let sdc = symcore::catch(|| sa.checked_div_ceil((sn, sd)).map_err(|e| format!("{e:?}")));
            claim(f, "C16:ops:checked_div_ceil: symbolic and stock implementation agree on ok / error", outcome(dc.clone()) == outcome(sdc.clone()));
            if let (Ok(Ok(c)), Ok(Ok(s))) = (&dc, &sdc) {
                prove(f, "C16:ops:checked_div_ceil: symbolic result term equals the stock result", t::eq(&t::ut(*s), &c.u128().to_string()));
            }
            // Decimal::from_ratio and its printed / parsed form
            let cd = symcore::catch(|| Decimal::checked_from_ratio(a, d).map_err(|e| format!("{e:?}")));
            let sdm = symcore::catch(|| Decimal::checked_from_ratio(sa, sd).map_err(|e| format!("{e:?}")));
            claim(f, "C16:ops:Decimal::checked_from_ratio: symbolic and stock implementation agree on ok / error", outcome(cd.clone()) == outcome(sdm.clone()));
            if let (Ok(Ok(c)), Ok(Ok(s))) = (&cd, &sdm) {
                prove(f, "C16:ops:Decimal::checked_from_ratio: symbolic atomics equal the stock atomics", t::eq(&t::ut(s.atomics()), &c.atomics().u128().to_string()));
                let printed = s.to_string();
                let back: Result<Decimal, _> = printed.parse();
                claim(f, "C16:ops:Decimal: printing and parsing a symbolic decimal round-trips", back.map(|b| t::ut(b.atomics()) == t::ut(s.atomics())).unwrap_or(false));
                let lit = crate::step::decimal_atomics(&c.to_string());
                claim(f, "C16:ops:Decimal: the harness's decimal reader agrees with Decimal::to_string", lit == Some(c.atomics().u128().to_string()));
            }
            // comparisons and zero test
            let cmp = (Uint128::new(a) < Uint128::new(n), Uint128::new(a) <= Uint128::new(n), Uint128::new(a) == Uint128::new(n), Uint128::new(a) >= Uint128::new(n), Uint128::new(a) > Uint128::new(n), Uint128::new(a).is_zero(), Uint128::new(a).cmp(&Uint128::new(n)));
            let scmp = (sa < sn, sa <= sn, sa == sn, sa >= sn, sa > sn, sa.is_zero(), sa.cmp(&sn));
            claim(f, "C16:ops:comparisons and is_zero agree with the stock implementation", cmp == scmp);
            // persistence: Display / FromStr / serde round trip of a symbolic amount
            let js = cosmwasm_std::to_json_vec(&sa).unwrap();
            let back: Uint128 = cosmwasm_std::from_json(&js).unwrap();
            prove(f, "C16:ops:a symbolic amount survives JSON persistence", t::eq(&t::ut(back), &t::ut(sa)));
            let viaprim = Uint128::new(sa.u128());
            prove(f, "C16:ops:a symbolic amount survives the primitive u128 pass-through", t::eq(&t::ut(viaprim), &t::ut(sa)));
            symcore::note("outcome=ok".into());
        }),
    }
}

pub fn cases(_tier: &str) -> Vec<Case> {
    let mut v = vec![];
    let bs = boundary();
    for opi in 0..binops().len() {
        for &a in &bs {
            for &b in &bs {
                v.push(bin_case(opi, a, b));
            }
        }
    }
    let small = [0u128, 1, 3, 100_000, (1u128 << 64) + 1, 10u128.pow(18), 10u128.pow(27), (1u128 << 119) + 3];
    for &a in &small {
        for &n in &small {
            for &d in &small {
                v.push(ratio_case(a, n, d));
            }
        }
    }
    v
}
