//! Independent protobuf wire reader / canonical writer (no prost, none of the crates under test).
//! Only what the contracts emit is needed: varint and length-delimited fields.
#![allow(dead_code)]

#[derive(Clone, Debug, PartialEq)]
pub enum Val {
    Varint(u64),
    Len(Vec<u8>),
    I64(u64),
    I32(u32),
}

#[derive(Clone, Debug, PartialEq)]
pub struct Msg {
    pub fields: Vec<(u32, Val)>,
}

fn varint(b: &[u8], i: &mut usize) -> Result<u64, String> {
    let mut v: u64 = 0;
    let mut shift = 0;
    loop {
        if *i >= b.len() {
            return Err("truncated varint".into());
        }
        let x = b[*i];
        *i += 1;
        if shift >= 64 {
            return Err("varint too long".into());
        }
        v |= ((x & 0x7f) as u64) << shift;
        if x & 0x80 == 0 {
            return Ok(v);
        }
        shift += 7;
    }
}

pub fn parse(b: &[u8]) -> Result<Msg, String> {
    let mut i = 0;
    let mut fields = vec![];
    while i < b.len() {
        let key = varint(b, &mut i)?;
        let no = (key >> 3) as u32;
        if no == 0 {
            return Err("field number 0".into());
        }
        let v = match key & 7 {
            0 => Val::Varint(varint(b, &mut i)?),
            1 => {
                if i + 8 > b.len() {
                    return Err("truncated i64".into());
                }
                let mut a = [0u8; 8];
                a.copy_from_slice(&b[i..i + 8]);
                i += 8;
                Val::I64(u64::from_le_bytes(a))
            }
            2 => {
                let n = varint(b, &mut i)? as usize;
                if i + n > b.len() {
                    return Err("truncated bytes".into());
                }
                let v = b[i..i + n].to_vec();
                i += n;
                Val::Len(v)
            }
            5 => {
                if i + 4 > b.len() {
                    return Err("truncated i32".into());
                }
                let mut a = [0u8; 4];
                a.copy_from_slice(&b[i..i + 4]);
                i += 4;
                Val::I32(u32::from_le_bytes(a))
            }
            w => return Err(format!("unsupported wire type {w}")),
        };
        fields.push((no, v));
    }
    Ok(Msg { fields })
}

impl Msg {
    pub fn all(&self, no: u32) -> Vec<&Val> {
        self.fields.iter().filter(|(n, _)| *n == no).map(|(_, v)| v).collect()
    }
    /// proto3 scalar semantics: last one wins, absent = default
    pub fn string(&self, no: u32) -> Result<String, String> {
        match self.all(no).last() {
            None => Ok(String::new()),
            Some(Val::Len(b)) => String::from_utf8(b.clone()).map_err(|_| format!("field {no}: invalid utf8")),
            Some(_) => Err(format!("field {no}: wrong wire type for string")),
        }
    }
    pub fn bytes(&self, no: u32) -> Result<Vec<u8>, String> {
        match self.all(no).last() {
            None => Ok(vec![]),
            Some(Val::Len(b)) => Ok(b.clone()),
            Some(_) => Err(format!("field {no}: wrong wire type for bytes")),
        }
    }
    pub fn uint(&self, no: u32) -> Result<u64, String> {
        match self.all(no).last() {
            None => Ok(0),
            Some(Val::Varint(v)) => Ok(*v),
            Some(_) => Err(format!("field {no}: wrong wire type for uint")),
        }
    }
    pub fn msg(&self, no: u32) -> Result<Option<Msg>, String> {
        match self.all(no).last() {
            None => Ok(None),
            Some(Val::Len(b)) => Ok(Some(parse(b)?)),
            Some(_) => Err(format!("field {no}: wrong wire type for message")),
        }
    }
    pub fn msgs(&self, no: u32) -> Result<Vec<Msg>, String> {
        let mut out = vec![];
        for v in self.all(no) {
            match v {
                Val::Len(b) => out.push(parse(b)?),
                _ => return Err(format!("field {no}: wrong wire type for repeated message")),
            }
        }
        Ok(out)
    }
    pub fn only_fields(&self, allowed: &[u32]) -> bool {
        self.fields.iter().all(|(n, _)| allowed.contains(n))
    }
}

// ---- canonical writer ---------------------------------------------------------------------

pub fn put_varint(out: &mut Vec<u8>, mut v: u64) {
    loop {
        let b = (v & 0x7f) as u8;
        v >>= 7;
        if v == 0 {
            out.push(b);
            return;
        }
        out.push(b | 0x80);
    }
}
pub fn put_len(out: &mut Vec<u8>, no: u32, b: &[u8]) {
    put_varint(out, ((no as u64) << 3) | 2);
    put_varint(out, b.len() as u64);
    out.extend_from_slice(b);
}
/// proto3 canonical: default scalar values are omitted
pub fn put_str(out: &mut Vec<u8>, no: u32, s: &str) {
    if !s.is_empty() {
        put_len(out, no, s.as_bytes());
    }
}
pub fn put_uint(out: &mut Vec<u8>, no: u32, v: u64) {
    if v != 0 {
        put_varint(out, (no as u64) << 3);
        put_varint(out, v);
    }
}
pub fn coin(denom: &str, amount: &str) -> Vec<u8> {
    let mut c = vec![];
    put_str(&mut c, 1, denom);
    put_str(&mut c, 2, amount);
    c
}

/// `cosmos.base.v1beta1.Coin { denom = 1, amount = 2 }`
pub fn read_coin(m: &Msg) -> Result<(String, String), String> {
    if !m.only_fields(&[1, 2]) {
        return Err("coin: unknown field".into());
    }
    Ok((m.string(1)?, m.string(2)?))
}
