//! Engine S driver.
//!   symx step   --props C01,C02 --tier quick|thorough [--shard i/n] [--seed k] [--envelope full|c16] --out file.json
//!   symx replay --suite step --case <name> --model <file.json> --label <obligation label>
//! The same sources are built twice: against the instrumented cosmwasm-std (symbolic exploration)
//! and against the unpatched crate (`native`, concrete replay of solver models on the real build).
mod addr;
mod cfgmat;
mod cfgops;
mod hist;
mod mig;
mod opsval;
mod pb;
mod probe;
mod qry;
mod scen;
mod step;
mod suites;
mod t;
mod tre;
mod world;

use std::collections::{BTreeMap, BTreeSet, HashMap};

pub struct Args {
    pub cmd: String,
    pub opts: HashMap<String, String>,
}

fn parse_args() -> Args {
    let a: Vec<String> = std::env::args().collect();
    let cmd = a.get(1).cloned().unwrap_or_default();
    let mut opts = HashMap::new();
    let mut i = 2;
    while i < a.len() {
        if let Some(k) = a[i].strip_prefix("--") {
            let v = a.get(i + 1).cloned().unwrap_or_default();
            opts.insert(k.to_string(), v);
            i += 2;
        } else {
            i += 1;
        }
    }
    Args { cmd, opts }
}

pub fn json_str(s: &str) -> String {
    serde_json::to_string(s).unwrap()
}

fn main() {
    let args = parse_args();
    let native = cfg!(feature = "native");
    let miniwasm = cfg!(feature = "miniwasm");
    match args.cmd.as_str() {
        "run" => {
            if native {
                eprintln!("the native build only replays");
                std::process::exit(2);
            }
            let suite = args.opts.get("suite").cloned().unwrap_or_else(|| "step".into());
            let props: BTreeSet<String> = args.opts.get("props").map(|s| s.split(',').filter(|x| !x.is_empty()).map(|x| x.to_string()).collect()).unwrap_or_default();
            let tier = args.opts.get("tier").cloned().unwrap_or_else(|| "quick".into());
            let seed: u64 = args.opts.get("seed").and_then(|s| s.parse().ok()).unwrap_or(0);
            let (si, sn) = args.opts.get("shard").and_then(|s| s.split_once('/')).map(|(a, b)| (a.parse().unwrap_or(0usize), b.parse().unwrap_or(1usize))).unwrap_or((0, 1));
            let out = args.opts.get("out").cloned().unwrap_or_else(|| "/dev/stdout".into());
            let only = args.opts.get("case").cloned();
            let ops: Vec<String> = args.opts.get("ops").map(|s| s.split(',').filter(|x| !x.is_empty()).map(|x| x.to_string()).collect()).unwrap_or_default();
            let only_sub = args.opts.get("only").cloned();
            let rep = suites::run_suite(&suite, &props, &tier, seed, si, sn, miniwasm, only.as_deref(), &ops, only_sub.as_deref());
            std::fs::write(&out, serde_json::to_string(&rep).unwrap()).expect("write report");
        }
        "replay" => {
            let suite = args.opts.get("suite").cloned().unwrap_or_else(|| "step".into());
            let case = args.opts.get("case").cloned().expect("--case");
            let label = args.opts.get("label").cloned().unwrap_or_default();
            let props: BTreeSet<String> = args.opts.get("props").map(|s| s.split(',').filter(|x| !x.is_empty()).map(|x| x.to_string()).collect()).unwrap_or_default();
            let model_file = args.opts.get("model").cloned().expect("--model");
            let txt = std::fs::read_to_string(&model_file).expect("model file");
            let v: serde_json::Value = serde_json::from_str(&txt).expect("model json");
            let mut model: HashMap<String, String> = HashMap::new();
            if let Some(m) = v.get("model").and_then(|m| m.as_object()) {
                for (k, val) in m {
                    model.insert(k.clone(), val.as_str().map(|s| s.to_string()).unwrap_or_else(|| val.to_string()));
                }
            }
            symcore::set_concrete(model);
            let r = suites::replay_case(&suite, &case, &props, &label, miniwasm);
            println!("{}", serde_json::to_string(&r).unwrap());
            std::process::exit(if r["reproduced"].as_bool().unwrap_or(false) { 1 } else { 0 });
        }
        "probe" => {
            let kind = args.opts.get("kind").cloned().expect("--kind");
            let model_file = args.opts.get("model").cloned().expect("--model");
            let txt = std::fs::read_to_string(&model_file).expect("model file");
            let v: serde_json::Value = serde_json::from_str(&txt).expect("model json");
            let mut model: HashMap<String, String> = HashMap::new();
            if let Some(m) = v.get("model").and_then(|m| m.as_object()) {
                for (k, val) in m {
                    model.insert(k.clone(), val.as_str().map(|s| s.to_string()).unwrap_or_else(|| val.to_string()));
                }
            }
            symcore::set_concrete(HashMap::new());
            let r = match kind.as_str() {
                "own-staking" => probe::own_history("staking", &model),
                "own-treasury" => probe::own_history("treasury", &model),
                "submit" => probe::time_step("submit", &model),
                "receive" => probe::time_step("receive", &model),
                "instantiate" => probe::instantiate_period(&model),
                "derive" => probe::derive(&model),
                "denom" => probe::denom(&model),
                "protocfg" => probe::protocfg(&model),
                "paginate" => probe::paginate(&model),
                "batchquery" => probe::batchquery(&model),
                other => serde_json::json!({"reproduced": false, "error": format!("unknown probe {other}")}),
            };
            println!("{}", serde_json::to_string(&r).unwrap());
            std::process::exit(if r["reproduced"].as_bool().unwrap_or(false) { 1 } else { 0 });
        }
        "digest" => {
            // concrete behaviour digest of one history with fixed inputs (build comparison, C19)
            let suite = args.opts.get("suite").cloned().unwrap_or_else(|| "hist".into());
            let case = args.opts.get("case").cloned().expect("--case");
            std::env::set_var("SYMX_FIXED", "1");
            if let Some(sc) = args.opts.get("scale") {
                std::env::set_var("SYMX_FIXED_SCALE", sc);
            }
            symcore::set_concrete(HashMap::new());
            let r = suites::replay_case(&suite, &case, &BTreeSet::new(), "", miniwasm);
            let notes: Vec<String> = r["notes"].as_array().map(|a| a.iter().filter_map(|x| x.as_str().map(|s| s.to_string())).filter(|n| n.starts_with('m') || n.starts_with("outcome")).collect()).unwrap_or_default();
            println!("{}", serde_json::to_string(&notes).unwrap());
        }
        "list" => {
            let suite = args.opts.get("suite").cloned().unwrap_or_else(|| "step".into());
            let tier = args.opts.get("tier").cloned().unwrap_or_else(|| "quick".into());
            for c in suites::list_cases(&suite, &tier, 0) {
                println!("{c}");
            }
        }
        _ => {
            eprintln!("usage: symx run|replay|list ...");
            std::process::exit(2);
        }
    }
    let _ = BTreeMap::<u8, u8>::new();
}
