//! UpdateConfig messages by section subset (bitmask) and the sectional-update post-condition (C14).
#![allow(dead_code)]
use crate::addr::{self, Who};
use crate::step::{claim, prove, raw_equal_except, Ctx, StepOut};
use crate::t;
use cosmwasm_std::{Addr, Uint128};
use staking::msg::ExecuteMsg;
use staking::types::{UnsafeNativeChainConfig, UnsafeProtocolChainConfig, UnsafeProtocolFeeConfig};

pub const S_NATIVE: u8 = 1;
pub const S_PROTOCOL: u8 = 2;
pub const S_FEE: u8 = 4;
pub const S_MONITORS: u8 = 8;
pub const S_PERIOD: u8 = 16;
/// the protocol section switches the account prefix; the fee section's treasury is given under the *new* prefix
pub const S_NEWPREFIX: u8 = 32;
/// as above but the treasury is given under the *old* prefix (must be refused)
pub const S_OLDPREFIX_TREASURY: u8 = 64;

/// the protocol section keeps the staked-asset denom (only channel, minimum and oracle change)
pub const S_KEEP_DENOM: u8 = 128;

pub const NEW_PREFIX: &str = "cosmos";

pub fn new_denom(sections: u8) -> String {
    if sections & S_KEEP_DENOM != 0 {
        addr::NATIVE_DENOM.to_string()
    } else {
        format!("ibc/{}", "A".repeat(64))
    }
}

pub fn update_msg(who: &Who, sections: u8, input: &mut dyn FnMut(&str) -> Uint128) -> ExecuteMsg {
    let native = if sections & S_NATIVE != 0 {
        Some(UnsafeNativeChainConfig {
            account_address_prefix: who.np.clone(),
            validator_address_prefix: who.vp.clone(),
            token_denom: "unew".into(),
            validators: vec![who.val2.clone(), who.val3.clone()],
            unbonding_period: 777,
            staker_address: who.n2.clone(),
            reward_collector_address: who.n1.clone(),
        })
    } else {
        None
    };
    let new_prefix = sections & (S_NEWPREFIX | S_OLDPREFIX_TREASURY) != 0;
    let protocol = if sections & S_PROTOCOL != 0 {
        Some(UnsafeProtocolChainConfig {
            account_address_prefix: if new_prefix { NEW_PREFIX.to_string() } else { who.pp.clone() },
            ibc_token_denom: new_denom(sections),
            ibc_channel_id: "channel-9".into(),
            minimum_liquid_stake_amount: input("ucmin"),
            oracle_address: if new_prefix { None } else { Some(who.c32.clone()) },
        })
    } else {
        None
    };
    let fee = if sections & S_FEE != 0 {
        let treasury = if sections & S_NEWPREFIX != 0 { addr::addr(NEW_PREFIX, 77, 20) } else { who.u3.clone() };
        Some(UnsafeProtocolFeeConfig { dao_treasury_fee: input("ucfee"), treasury_address: Some(treasury) })
    } else {
        None
    };
    let monitors = if sections & S_MONITORS != 0 {
        if sections & S_NEWPREFIX != 0 {
            Some(vec![addr::addr(NEW_PREFIX, 78, 20), addr::addr(NEW_PREFIX, 79, 20)])
        } else {
            Some(vec![who.u1.clone(), who.u2.clone()])
        }
    } else {
        None
    };
    let period = if sections & S_PERIOD != 0 { Some(4242u64) } else { None };
    ExecuteMsg::UpdateConfig { native_chain_config: native, protocol_chain_config: protocol, protocol_fee_config: fee, monitors, batch_period: period }
}

pub fn check_update(cx: &Ctx, s: &StepOut, sections: u8) {
    let f = cx.f;
    let who = cx.who;
    let pre = &s.pre.cfg;
    let post = &s.post.cfg;
    let input = |name: &str| -> t::T { s.inputs.iter().find(|(n, _)| n.ends_with(name)).map(|x| x.1.clone()).unwrap_or_else(|| "0".into()) };
    claim(f, "C14:update can never alter the LST denom or the halted flag", pre.liquid_stake_token_denom == post.liquid_stake_token_denom && pre.stopped == post.stopped);
    claim(f, "C14:update touches only the config item", raw_equal_except(&s.pre.raw, &s.post.raw, &[b"config"]));
    claim(f, "C14:addresses under the old prefix are refused when the prefix changes in the same update", sections & S_OLDPREFIX_TREASURY == 0 || sections & S_PROTOCOL == 0 || sections & (S_FEE | S_MONITORS) == 0);
    // native section
    if sections & S_NATIVE != 0 {
        let n = &post.native_chain_config;
        claim(
            f,
            "C14:native section replaced by exactly the supplied values",
            n.account_address_prefix == who.np
                && n.validator_address_prefix == who.vp
                && n.token_denom == "unew"
                && n.validators == vec![Addr::unchecked(who.val2.clone()), Addr::unchecked(who.val3.clone())]
                && n.unbonding_period == 777
                && n.staker_address.as_str() == who.n2
                && n.reward_collector_address.as_str() == who.n1,
        );
    } else {
        claim(f, "C14:native section untouched when not supplied", pre.native_chain_config == post.native_chain_config);
    }
    if sections & S_PROTOCOL != 0 {
        let p = &post.protocol_chain_config;
        let new_prefix = sections & (S_NEWPREFIX | S_OLDPREFIX_TREASURY) != 0;
        claim(
            f,
            "C14:protocol section replaced by exactly the supplied values",
            p.account_address_prefix == if new_prefix { NEW_PREFIX } else { who.pp.as_str() }
                && p.ibc_token_denom == new_denom(sections)
                && p.ibc_channel_id == "channel-9"
                && p.oracle_address.as_ref().map(|a| a.to_string()) == if new_prefix { None } else { Some(who.c32.clone()) },
        );
        prove(f, "C14:minimum stake replaced by the supplied value", t::eq(&t::ut(p.minimum_liquid_stake_amount), &input("ucmin")));
    } else {
        claim(f, "C14:protocol section untouched when not supplied", pre.protocol_chain_config.account_address_prefix == post.protocol_chain_config.account_address_prefix && pre.protocol_chain_config.ibc_channel_id == post.protocol_chain_config.ibc_channel_id && pre.protocol_chain_config.ibc_token_denom == post.protocol_chain_config.ibc_token_denom && pre.protocol_chain_config.oracle_address == post.protocol_chain_config.oracle_address);
        prove(f, "C14:minimum stake untouched when not supplied", t::eq(&t::ut(pre.protocol_chain_config.minimum_liquid_stake_amount), &t::ut(post.protocol_chain_config.minimum_liquid_stake_amount)));
    }
    if sections & S_FEE != 0 {
        let want = if sections & S_NEWPREFIX != 0 { addr::addr(NEW_PREFIX, 77, 20) } else { who.u3.clone() };
        claim(f, "C14:fee section treasury replaced by the supplied address", post.protocol_fee_config.treasury_address.as_ref().map(|a| a.to_string()) == Some(want));
        prove(f, "C14:fee rate replaced by the supplied value", t::eq(&t::ut(post.protocol_fee_config.dao_treasury_fee), &input("ucfee")));
    } else {
        claim(f, "C14:fee section treasury untouched when not supplied", pre.protocol_fee_config.treasury_address == post.protocol_fee_config.treasury_address);
        prove(f, "C14:fee rate untouched when not supplied", t::eq(&t::ut(pre.protocol_fee_config.dao_treasury_fee), &t::ut(post.protocol_fee_config.dao_treasury_fee)));
    }
    if sections & S_MONITORS != 0 {
        let want = if sections & S_NEWPREFIX != 0 { vec![Addr::unchecked(addr::addr(NEW_PREFIX, 78, 20)), Addr::unchecked(addr::addr(NEW_PREFIX, 79, 20))] } else { vec![Addr::unchecked(who.u1.clone()), Addr::unchecked(who.u2.clone())] };
        claim(f, "C14:monitors replaced by the supplied list", post.monitors == want);
    } else {
        claim(f, "C14:monitors untouched when not supplied", pre.monitors == post.monitors);
    }
    if sections & S_PERIOD != 0 {
        claim(f, "C14:batch period replaced by the supplied value", post.batch_period == 4242);
    } else {
        claim(f, "C14:batch period untouched when not supplied", pre.batch_period == post.batch_period);
    }
}
