"""Library-call summaries for engine M. Each summary: fn(engine, path, argv, callee) -> value | [(cond, value)] | ('PANIC', msg)."""
import re
import z3
from mirx import Obj, Ref, P, const_obj, bool_obj, enum_obj, opaque_obj, Unsupported

ADMIN = z3.Int('admin_pre')


def norm_type(t):
    t = t.strip()
    t = re.sub(r"'\w+,?\s*", '', t)
    t = t.replace('milky_way::staking::', '').replace('state::', '').replace('crate::', '')
    return t


def item_type(callee):
    m = re.search(r"Item::<(.*)>::(load|save|may_load|update)", callee)
    return norm_type(m.group(1)) if m else '?'


def s_item_load(eng, path, argv, callee):
    ty = item_type(callee)
    pay = Obj('p%d' % next(Obj.cnt))
    pay.fields[0] = Obj('pre:' + ty)
    return enum_obj(0, 'Ok', pay)  # an initialised item loads (assumption: instantiate ran)


def s_item_save(eng, path, argv, callee):
    ty = item_type(callee)
    path.effects.append(('save', ty, path.deref(argv[2]).clone()))
    return enum_obj(0, 'Ok', Obj('unit'))


def s_item_update(eng, path, argv, callee):
    """`Item::update(storage, closure)`: load, run the closure's MIR body on the loaded value, save its Ok result.
    Supported for closures with exactly one returning path (straight-line updates)."""
    ty = item_type(callee)
    m = re.search(r'\{closure@([^}]*)\}', callee)
    if not m:
        raise Unsupported('Item::update without a closure: ' + callee[:80])
    fn = None
    for mod in eng.modules:
        mm = re.search(r'^fn (\S+)\(_1: \{closure@' + re.escape(m.group(1)) + r'\}', mod.text, re.M)
        if mm:
            fn = mod.get(mm.group(1))
            break
    if fn is None or not fn.blocks:
        raise Unsupported('closure body of Item::update not found: ' + m.group(1))
    subs = eng.run_fn(fn, path, [argv[2], Obj('pre:' + ty)], 1)
    if len(subs) != 1 or subs[0][0] is not path:
        raise Unsupported('closure of Item::update has %d returning paths' % len(subs))
    rv = subs[0][1]
    d = z3.simplify(rv.disc())
    if not (z3.is_int_value(d) and d.as_long() == 0):
        raise Unsupported('closure of Item::update does not return a constant Ok')
    new = rv.get(('as', 'Ok')).get(0)
    path.effects.append(('save', ty, new.clone()))
    pay = Obj('p%d' % next(Obj.cnt))
    pay.fields[0] = new
    return enum_obj(0, 'Ok', pay)


def map_types(callee):
    m = re.search(r"Map::<(.*)>::(load|save|may_load|remove|update)", callee)
    return norm_type(m.group(1)) if m else '?'


def s_map_load(eng, path, argv, callee):
    ty = map_types(callee)
    key = path.deref(argv[2])
    d = z3.Int('pre:%s#missing' % ty)
    path.cond.append(z3.Or(d == 0, d == 1))
    pay = Obj('p%d' % next(Obj.cnt))
    pay.fields[0] = Obj('pre:' + ty)
    o = enum_obj(d)
    o.fields[('as', 'Ok')] = pay
    o.fields[('as', 'Err')] = opaque_obj('notfound')
    path.notes.append(('map_load', ty, key.scalar()))
    return o


def s_map_save(eng, path, argv, callee):
    ty = map_types(callee)
    path.effects.append(('msave', ty, path.deref(argv[2]).clone(), path.deref(argv[3]).clone()))
    return enum_obj(0, 'Ok', Obj('unit'))


def s_branch(eng, path, argv, callee):
    r = path.deref(argv[0])
    _two(path, r)
    o = enum_obj(r.disc())
    cont = Obj('p%d' % next(Obj.cnt))
    cont.fields[0] = r.get(('as', 'Ok')).get(0)
    o.fields[('as', 'Continue')] = cont
    brk = Obj('p%d' % next(Obj.cnt))
    brk.fields[0] = r.get(('as', 'Err'))
    o.fields[('as', 'Break')] = brk
    return o


def s_from_residual(eng, path, argv, callee):
    return enum_obj(1, 'Err', opaque_obj('residual'))


def _two(path, o):
    """Option / Result have exactly two variants."""
    d = o.disc()
    if not z3.is_int_value(d):
        c = z3.Or(d == 0, d == 1)
        if not any(c.eq(x) for x in path.cond):
            path.cond.append(c)
    return d


def s_is_some(eng, path, argv, callee):
    return bool_obj(_two(path, path.deref(argv[0])) == 1)


def s_is_none(eng, path, argv, callee):
    return bool_obj(_two(path, path.deref(argv[0])) == 0)


def s_is_ok(eng, path, argv, callee):
    return bool_obj(_two(path, path.deref(argv[0])) == 0)


def s_is_err(eng, path, argv, callee):
    return bool_obj(_two(path, path.deref(argv[0])) == 1)


def _unwrap(eng, path, argv, good_disc, variant, what):
    o = path.deref(argv[0])
    _two(path, o)
    bad = o.disc() != good_disc
    if eng.feasible(path.cond + [bad]):
        p2 = path.fork()
        p2.cond.append(bad)
        p2.outcome = ('panic', 'unwrap on %s' % what)
        eng.done.append(p2)
    path.cond.append(o.disc() == good_disc)
    return o.get(('as', variant)).get(0)


def s_opt_unwrap(eng, path, argv, callee):
    return _unwrap(eng, path, argv, 1, 'Some', 'None')


def s_res_unwrap(eng, path, argv, callee):
    return _unwrap(eng, path, argv, 0, 'Ok', 'Err')


def s_opt_unwrap_or(eng, path, argv, callee):
    o = path.deref(argv[0])
    d = path.deref(argv[1])
    some = o.get(('as', 'Some')).get(0)
    return const_obj(z3.If(o.disc() == 1, some.scalar(), d.scalar()))


MAX_TS_SECONDS = (2 ** 64 - 1) // 1_000_000_000   # a Timestamp holds u64 nanoseconds


def s_seconds(eng, path, argv, callee):
    # Timestamp is abstracted to whole seconds: seconds(from_seconds(s)) = s; a stored Timestamp never exceeds u64 nanoseconds
    v = path.deref(argv[0]).scalar()
    c = v <= MAX_TS_SECONDS
    if not any(c.eq(x) for x in path.cond):
        path.cond.append(c)
    return const_obj(v)


def s_from_seconds(eng, path, argv, callee):
    # cosmwasm-std 1.5.9: Timestamp(Uint64::new(seconds * 1_000_000_000)) - plain u64 multiplication, panics on overflow
    v = path.deref(argv[0]).scalar()
    bad = v > MAX_TS_SECONDS
    if eng.feasible(path.cond + [bad]):
        p2 = path.fork()
        p2.cond.append(bad)
        p2.outcome = ('panic', 'Timestamp::from_seconds: attempt to multiply with overflow')
        eng.done.append(p2)
    path.cond.append(z3.Not(bad))
    return const_obj(v)


def s_addr_eq(eng, path, argv, callee):
    a, b = path.deref(argv[0]).scalar(), path.deref(argv[1]).scalar()
    return bool_obj(a == b)


def s_addr_ne(eng, path, argv, callee):
    a, b = path.deref(argv[0]).scalar(), path.deref(argv[1]).scalar()
    return bool_obj(a != b)


def s_enum_eq(eng, path, argv, callee):
    return bool_obj(path.deref(argv[0]).disc() == path.deref(argv[1]).disc())


def s_enum_ne(eng, path, argv, callee):
    return bool_obj(path.deref(argv[0]).disc() != path.deref(argv[1]).disc())


def s_assert_admin(eng, path, argv, callee):
    snd = path.deref(argv[2]).scalar()
    path.notes.append(('assert_admin', snd))
    return enum_obj(z3.If(snd == ADMIN, z3.IntVal(0), z3.IntVal(1)))


def s_admin_set(eng, path, argv, callee):
    path.effects.append(('admin_set', path.deref(argv[2]).clone()))
    return enum_obj(0, 'Ok', Obj('unit'))


def s_addr_validate(eng, path, argv, callee):
    s = path.deref(argv[1])
    ok = z3.Int('addr_invalid%d' % next(Obj.cnt))
    path.cond.append(z3.Or(ok == 0, ok == 1))
    pay = Obj('p%d' % next(Obj.cnt))
    pay.fields[0] = const_obj(s.scalar())
    o = enum_obj(ok)
    o.fields[('as', 'Ok')] = pay
    return o


def s_ident(eng, path, argv, callee):
    return path.deref(argv[0])


def s_ident_ref(eng, path, argv, callee):
    return argv[0]


DERIVE = z3.Function('derive_intermediate_sender', z3.IntSort(), z3.IntSort(), z3.IntSort(), z3.IntSort())


def s_derive(eng, path, argv, callee):
    a, b, c = [path.deref(x).scalar() for x in argv]
    d = z3.Int('derive_fails%d' % next(Obj.cnt))
    path.cond.append(z3.Or(d == 0, d == 1))
    pay = Obj('p%d' % next(Obj.cnt))
    pay.fields[0] = const_obj(DERIVE(a, b, c))
    o = enum_obj(d)
    o.fields[('as', 'Ok')] = pay
    path.notes.append(('derive', a, b, c))
    return o


def s_u64_checked_add(eng, path, argv, callee):
    a, b = path.deref(argv[0]).scalar(), path.deref(argv[1]).scalar()
    pay = Obj('p%d' % next(Obj.cnt))
    pay.fields[0] = const_obj(a + b)
    o = enum_obj(z3.If(a + b < 2 ** 64, z3.IntVal(1), z3.IntVal(0)))
    o.fields[('as', 'Some')] = pay
    return o


def s_u64_checked_sub(eng, path, argv, callee):
    a, b = path.deref(argv[0]).scalar(), path.deref(argv[1]).scalar()
    pay = Obj('p%d' % next(Obj.cnt))
    pay.fields[0] = const_obj(a - b)
    o = enum_obj(z3.If(a >= b, z3.IntVal(1), z3.IntVal(0)))
    o.fields[('as', 'Some')] = pay
    return o


def s_ok_or(eng, path, argv, callee):
    """Option::ok_or / ok_or_else: Some(v) -> Ok(v), None -> Err(_)"""
    o = path.deref(argv[0])
    d = _two(path, o)
    pay = Obj('p%d' % next(Obj.cnt))
    pay.fields[0] = o.get(('as', 'Some')).get(0)
    r = enum_obj(z3.If(d == 1, z3.IntVal(0), z3.IntVal(1)))
    r.fields[('as', 'Ok')] = pay
    r.fields[('as', 'Err')] = opaque_obj('ok_or_err')
    return r


def s_get_or_insert(eng, path, argv, callee):
    """Option::get_or_insert(&mut self, v): keeps an existing value, otherwise stores Some(v); returns &mut to it."""
    ref = argv[0]
    if not isinstance(ref, Ref):
        raise Unsupported('get_or_insert receiver is not a reference')
    o = path.deref(ref)
    d = _two(path, o)
    val = argv[1]

    def keep(p):
        return Ref(ref.frame, P(ref.place.local, ref.place.proj + (('as', 'Some'), 0)))

    def store(p):
        pay = Obj('p%d' % next(Obj.cnt))
        pay.fields[0] = val.clone() if isinstance(val, Obj) else val
        p.write(ref.place, enum_obj(1, 'Some', pay), ref.frame)
        return Ref(ref.frame, P(ref.place.local, ref.place.proj + (('as', 'Some'), 0)))
    return [(d == 1, None, keep), (d == 0, None, store)]


def s_opt_insert(eng, path, argv, callee):
    ref = argv[0]
    if not isinstance(ref, Ref):
        raise Unsupported('insert receiver is not a reference')
    pay = Obj('p%d' % next(Obj.cnt))
    pay.fields[0] = argv[1].clone() if isinstance(argv[1], Obj) else argv[1]
    path.write(ref.place, enum_obj(1, 'Some', pay), ref.frame)
    return Ref(ref.frame, P(ref.place.local, ref.place.proj + (('as', 'Some'), 0)))


def s_opt_take(eng, path, argv, callee):
    ref = argv[0]
    if not isinstance(ref, Ref):
        raise Unsupported('take receiver is not a reference')
    old = path.deref(ref).clone()
    path.write(ref.place, enum_obj(0, 'None', Obj('unit')), ref.frame)
    return old


def s_opt_or(eng, path, argv, callee):
    a, b = path.deref(argv[0]), path.deref(argv[1])
    d = _two(path, a)
    return [(d == 1, a), (d == 0, b)]


def s_plus_seconds(eng, path, argv, callee):
    # Timestamp abstracted to whole seconds
    return const_obj(path.deref(argv[0]).scalar() + path.deref(argv[1]).scalar())


def _opt_eq(path, a, b):
    a, b = path.deref(a), path.deref(b)
    da, db = _two(path, a), _two(path, b)
    pa, pb = path.deref(a.get(('as', 'Some')).get(0)), path.deref(b.get(('as', 'Some')).get(0))
    return z3.And(da == db, z3.Or(da == 0, pa.scalar() == pb.scalar()))


def s_opt_eq(eng, path, argv, callee):
    return bool_obj(_opt_eq(path, argv[0], argv[1]))


def s_opt_ne(eng, path, argv, callee):
    return bool_obj(z3.Not(_opt_eq(path, argv[0], argv[1])))


def s_opt_as_ref(eng, path, argv, callee):
    return path.deref(argv[0])


BASE = [
    (r'<Option<.*> as PartialEq>::eq$|<std::option::Option<.*> as PartialEq>::eq$', s_opt_eq),
    (r'<Option<.*> as PartialEq>::ne$|<std::option::Option<.*> as PartialEq>::ne$', s_opt_ne),
    (r'Option::<.*>::as_ref$|Option::<.*>::as_deref$|Option::<.*>::cloned$', s_opt_as_ref),
    (r'Option::<.*>::get_or_insert$', s_get_or_insert),
    (r'Option::<.*>::insert$', s_opt_insert),
    (r'Option::<.*>::take$', s_opt_take),
    (r'Option::<.*>::or$', s_opt_or),
    (r'Timestamp::plus_seconds$', s_plus_seconds),
    (r'<impl u64>::checked_add$', s_u64_checked_add),
    (r'<impl u64>::checked_sub$', s_u64_checked_sub),
    (r'Option::<.*>::ok_or_else::<|Option::<.*>::ok_or::<', s_ok_or),
    (r'Item::<.*>::load$', s_item_load),
    (r'Item::<.*>::save$', s_item_save),
    (r'Item::<.*>::update::<', s_item_update),
    (r'Map::<.*>::load$', s_map_load),
    (r'Map::<.*>::save$', s_map_save),
    (r'as std::ops::Try>::branch$', s_branch),
    (r'FromResidual<.*>::from_residual$', s_from_residual),
    (r'Option::<.*>::is_some$', s_is_some),
    (r'Option::<.*>::is_none$', s_is_none),
    (r'Result::<.*>::is_ok$', s_is_ok),
    (r'Result::<.*>::is_err$', s_is_err),
    (r'Option::<.*>::unwrap$', s_opt_unwrap),
    (r'Result::<.*>::unwrap$', s_res_unwrap),
    (r'Option::<.*>::unwrap_or$', s_opt_unwrap_or),
    (r'Timestamp::seconds$', s_seconds),
    (r'Timestamp::from_seconds$', s_from_seconds),
    (r'<Addr as PartialEq>::eq$|<Addr as PartialEq<.*>>::eq$', s_addr_eq),
    (r'<Addr as PartialEq>::ne$|<Addr as PartialEq<.*>>::ne$', s_addr_ne),
    (r'<BatchStatus as PartialEq>::eq$', s_enum_eq),
    (r'<BatchStatus as PartialEq>::ne$', s_enum_ne),
    (r'Admin::<.*>::assert_admin', s_assert_admin),
    (r'Admin::<.*>::set', s_admin_set),
    (r'Api>::addr_validate$', s_addr_validate),
    (r'^derive_intermediate_sender$|helpers::derive_intermediate_sender$', s_derive),
    (r'as Deref>::deref$|::as_str$|as Clone>::clone$|as ToString>::to_string$|as Into<.*>>::into$|::as_ref$|Addr::to_string$|as AsRef<.*>>::as_ref$|as From<.*>>::from$|::into_string$', s_ident),
]
