#!/usr/bin/env python3
"""C12 (engine M): two-step, seven-day admin handover in both contracts.

From the MIR of execute_transfer_ownership / execute_revoke_ownership_transfer / execute_accept_ownership
of each crate: (1) one-step contracts, (2) k-step bounded histories with symbolic non-decreasing block
times, symbolic callers, symbolic nominee arguments and a symbolic operation choice per step.
"""
import sys, os, re, json, time
import z3
sys.path.insert(0, os.path.dirname(os.path.abspath(__file__)))
import mirx, summ
from mirx import Module, Engine, Obj, P

SEVEN_DAYS = 604800
TMAX = 2 ** 33


def opt(o):
    return o.disc(), o.get(('as', 'Some')).get(0).scalar()


def extract(mod, src_state, crate):
    fields = mirx.struct_fields(src_state, 'State')
    ipo, imt = fields.index('pending_owner'), fields.index('owner_transfer_min_time')
    pre = Obj('pre:State')
    PRE = dict(pd=pre.get(ipo).disc(), pe=pre.get(ipo).get(('as', 'Some')).get(0).scalar(), md=pre.get(imt).disc(), mi=pre.get(imt).get(('as', 'Some')).get(0).scalar())
    rels = {}
    info = {}
    for op, fn in [(0, 'execute_transfer_ownership'), (1, 'execute_revoke_ownership_transfer'), (2, 'execute_accept_ownership')]:
        f = mod.get(fn)
        assert f is not None, fn
        eng = Engine([mod], summ.BASE)
        # args: deps, env, info [, new_owner]
        args = [Obj('deps'), Obj('env'), Obj('info')] + ([Obj('new_owner')] if f.nargs == 4 else [])
        paths = eng.relation(f, args)
        out = []
        for p in paths:
            k, v = p.outcome
            cond = z3.And(*p.cond) if p.cond else z3.BoolVal(True)
            if k == 'panic':
                out.append(dict(cond=cond, kind='panic', msg=v))
                continue
            d = z3.simplify(v.disc())
            assert z3.is_int_value(d), (fn, d)
            if d.as_long() == 1:
                out.append(dict(cond=cond, kind='err'))
                continue
            st, adm, other = None, None, []
            for e in p.effects:
                if e[0] == 'save' and e[1] == 'State':
                    st = (opt(e[2].get(ipo)), opt(e[2].get(imt)), e[2])
                elif e[0] == 'admin_set':
                    adm = opt(e[1])
                else:
                    other.append(e[0] + ':' + str(e[1]))
            out.append(dict(cond=cond, kind='ok', st=st, adm=adm, other=other))
        rels[op] = out
        info[fn] = dict(paths=len(paths), ok=sum(1 for r in out if r['kind'] == 'ok'), err=sum(1 for r in out if r['kind'] == 'err'), panic=sum(1 for r in out if r['kind'] == 'panic'), opaque_calls=sorted(eng.opaque_calls), unsupported=eng.unsupported[:5])
    return rels, PRE, info, (ipo, imt, fields)


def check(name, solver_assertions, expect_unsat=True, timeout=60000, replay=None):
    s = z3.Solver()
    s.set('timeout', timeout)
    s.add(*solver_assertions)
    t = time.time()
    r = s.check()
    res = dict(name=name, result=str(r), time_s=round(time.time() - t, 3))
    if r == z3.sat:
        m = s.model()
        res['model'] = {str(d): str(m[d]) for d in m.decls() if not str(d).startswith(('k!', 'opq'))}
    res['ok'] = (r == z3.unsat) if expect_unsat else (r == z3.sat)
    if replay is not None and not expect_unsat and r != z3.sat and 'witness' in replay:
        res['replay'] = dict(kind=replay['kind'], model=replay['witness'])
    if replay is not None and r == z3.sat and expect_unsat:
        mm = dict(replay.get('fixed', {}))
        for k, v in res['model'].items():
            mm[replay.get('rename', {}).get(k, k)] = v
        res['replay'] = dict(kind=replay['kind'], model=mm)
    return res


def run(crate, mir_path, state_src, K):
    mod = Module(open(mir_path).read())
    src = open(state_src).read()
    rels, PRE, info, (ipo, imt, fields) = extract(mod, src, crate)
    NOW = Obj('env').get(0).get(1).scalar()      # env.block.time (abstracted to seconds)
    SND = Obj('info').get(0).scalar()            # info.sender
    ARG = Obj('new_owner').scalar()
    ADMIN = summ.ADMIN
    results = []
    ren = {str(PRE['pd']): 'pd0', str(PRE['pe']): 'pe0', str(PRE['md']): 'md0', str(PRE['mi']): 'mi0', str(NOW): 'now0', str(SND): 'snd0', str(ARG): 'arg0', str(ADMIN): 'adm0'}
    rp = lambda op: dict(kind='own-' + crate, fixed={'op0': str(op)}, rename=ren)
    rph = dict(kind='own-' + crate)
    dom = [z3.Or(PRE['pd'] == 0, PRE['pd'] == 1), z3.Or(PRE['md'] == 0, PRE['md'] == 1), NOW >= 0, NOW < TMAX, PRE['mi'] >= 0, PRE['mi'] < 2 ** 64]

    def conclusive(e, what):
        if mirx.mentions_opaque(e):
            results.append(dict(name=what + ' (precision)', result='inconclusive: depends on an opaque call', ok=False, inconclusive=True))
            return False
        return True

    # ---- one-step contracts -------------------------------------------------------------------
    acc = rels[2]
    ok_acc = z3.Or(*[r['cond'] for r in acc if r['kind'] == 'ok']) if any(r['kind'] == 'ok' for r in acc) else z3.BoolVal(False)
    spec_acc = z3.And(z3.Or(PRE['md'] == 0, PRE['mi'] <= NOW), PRE['pd'] == 1, PRE['pe'] == SND)
    if conclusive(ok_acc, 'accept'):
        results.append(check(f'{crate}: accept succeeds <=> (no time lock or lock <= now) and pending_owner = Some(sender)', dom + [ok_acc != spec_acc], replay=rp(2)))
    for r in acc:
        if r['kind'] == 'ok':
            bad = []
            if r['adm'] is None:
                bad.append(z3.BoolVal(True))
            else:
                bad.append(z3.Not(z3.And(r['adm'][0] == 1, r['adm'][1] == SND)))
            if r['st'] is None:
                bad.append(z3.BoolVal(True))
            else:
                bad.append(r['st'][0][0] != 0)  # pending consumed
            results.append(check(f'{crate}: successful accept sets admin = sender and clears the nomination', dom + [r['cond'], z3.Or(*bad)], replay=rp(2)))
            results.append(dict(name=f'{crate}: accept has no other effect', result='structural', ok=(r['other'] == []), detail=r['other']))
    results.append(dict(name=f'{crate}: accept never panics', result='structural', ok=not any(r['kind'] == 'panic' for r in acc)))
    tr = rels[0]
    ok_tr = z3.Or(*[r['cond'] for r in tr if r['kind'] == 'ok'])
    # transfer: Ok => sender = admin; and with a valid address, sender = admin => Ok (no panic for now < TMAX)
    results.append(check(f'{crate}: nominate succeeds only for the current admin', dom + [ok_tr, SND != ADMIN], replay=rp(0)))
    for r in tr:
        if r['kind'] == 'ok':
            (pd2, pe2), (md2, mi2), _ = r['st'] if r['st'] else ((None, None), (None, None), None)
            if r['st'] is None:
                results.append(dict(name=f'{crate}: nominate saves the state', result='structural', ok=False))
                continue
            results.append(check(f'{crate}: nominate records the nominee and a lock of exactly now + 7 days', dom + [r['cond'], z3.Not(z3.And(pd2 == 1, pe2 == ARG, md2 == 1, mi2 == NOW + SEVEN_DAYS))], replay=rp(0)))
            results.append(dict(name=f'{crate}: nominate does not touch the admin', result='structural', ok=(r['adm'] is None and r['other'] == [])))
    pan = [r for r in tr if r['kind'] == 'panic']
    if pan:
        results.append(check(f'{crate}: nominate cannot overflow for block times < 2^33 s', dom + [z3.Or(*[r['cond'] for r in pan])], replay=rp(0)))
    rv = rels[1]
    ok_rv = z3.Or(*[r['cond'] for r in rv if r['kind'] == 'ok'])
    results.append(check(f'{crate}: revoke succeeds only for the current admin', dom + [ok_rv, SND != ADMIN], replay=rp(1)))
    for r in rv:
        if r['kind'] == 'ok':
            if r['st'] is None:
                results.append(dict(name=f'{crate}: revoke saves the state', result='structural', ok=False))
                continue
            (pd2, pe2), (md2, mi2), _ = r['st']
            results.append(check(f'{crate}: revoke clears nominee and lock', dom + [r['cond'], z3.Not(z3.And(pd2 == 0, md2 == 0))], replay=rp(1)))
            results.append(dict(name=f'{crate}: revoke does not touch the admin', result='structural', ok=(r['adm'] is None and r['other'] == [])))
    # boundary instances (both are instances of the universally quantified guard; kept as readable witnesses)
    results.append(check(f'{crate}: accept at lock - 1 s is refused', dom + [ok_acc, PRE['md'] == 1, NOW == PRE['mi'] - 1], replay=rp(2)))
    results.append(check(f'{crate}: accept exactly at the lock is possible (witness)', dom + [ok_acc, PRE['md'] == 1, NOW == PRE['mi']], expect_unsat=False,
                         replay=dict(kind='own-' + crate, witness={'op0': '2', 'pd0': '1', 'pe0': '5', 'snd0': '5', 'md0': '1', 'mi0': '700000', 'now0': '700000', 'adm0': '1'})))

    # ---- bounded histories --------------------------------------------------------------------
    s_assert = []
    adm = [z3.Int('adm%d' % i) for i in range(K + 1)]
    pd = [z3.Int('pd%d' % i) for i in range(K + 1)]
    pe = [z3.Int('pe%d' % i) for i in range(K + 1)]
    md = [z3.Int('md%d' % i) for i in range(K + 1)]
    mi = [z3.Int('mi%d' % i) for i in range(K + 1)]
    now = [z3.Int('now%d' % i) for i in range(K)]
    snd = [z3.Int('snd%d' % i) for i in range(K)]
    arg = [z3.Int('arg%d' % i) for i in range(K)]
    op = [z3.Int('op%d' % i) for i in range(K)]
    okv = [z3.Bool('ok%d' % i) for i in range(K)]
    s_assert += [pd[0] == 0, md[0] == 0]  # after instantiate: no nomination
    aux_cnt = 0
    for i in range(K):
        s_assert += [now[i] >= 0, now[i] < TMAX, op[i] >= 0, op[i] <= 2]
        if i:
            s_assert.append(now[i] >= now[i - 1])
        cases = []
        for o, rel in rels.items():
            for r in rel:
                cond = r['cond']
                # rename path-local auxiliaries (address validity flags ...) per step
                aux = [n for n in mirx.free_symbols(cond) if n.startswith(('addr_invalid', 'derive_fails'))]
                sub = [(ADMIN, adm[i]), (PRE['pd'], pd[i]), (PRE['pe'], pe[i]), (PRE['md'], md[i]), (PRE['mi'], mi[i]), (NOW, now[i]), (SND, snd[i]), (ARG, arg[i])]
                for a in aux:
                    nv = z3.Int('%s_s%d' % (a, i))
                    sub.append((z3.Int(a), nv))
                    s_assert.append(z3.Or(nv == 0, nv == 1))
                f = lambda e: z3.substitute(e, *sub) if z3.is_expr(e) else e
                c = f(cond)
                if r['kind'] == 'panic':
                    s_assert.append(z3.Not(z3.And(op[i] == o, c)))  # shown impossible above for now < 2^33
                    continue
                if r['kind'] == 'err':
                    post = z3.And(adm[i + 1] == adm[i], pd[i + 1] == pd[i], pe[i + 1] == pe[i], md[i + 1] == md[i], mi[i + 1] == mi[i], z3.Not(okv[i]))
                else:
                    if r['st']:
                        (d0, p0), (d1, p1), _ = r['st']
                    else:
                        (d0, p0), (d1, p1) = (pd[i], pe[i]), (md[i], mi[i])
                    post = z3.And(pd[i + 1] == f(d0), pe[i + 1] == f(p0), md[i + 1] == f(d1), mi[i + 1] == f(p1), okv[i], adm[i + 1] == (f(r['adm'][1]) if r['adm'] else adm[i]))
                cases.append(z3.And(op[i] == o, c, post))
        s_assert.append(z3.Or(*cases))
    # the admin changes at step j only by accept from the account named by the most recent successful nomination,
    # made by the then-admin >= 7 days earlier, with no successful nominate / revoke in between
    bad = []
    for j in range(K):
        witness = []
        for i in range(j):
            quiet = z3.And(*[z3.Not(z3.And(okv[t], op[t] <= 1)) for t in range(i + 1, j)]) if j - i > 1 else z3.BoolVal(True)
            witness.append(z3.And(op[i] == 0, okv[i], snd[i] == adm[i], arg[i] == snd[j], now[j] >= now[i] + SEVEN_DAYS, quiet))
        good = z3.And(op[j] == 2, okv[j], adm[j + 1] == snd[j], z3.Or(*witness) if witness else z3.BoolVal(False))
        bad.append(z3.And(adm[j + 1] != adm[j], z3.Not(good)))
    results.append(check(f'{crate}: k={K} histories: admin changes only by accept of the most recent un-revoked nomination >= 7 days old', s_assert + [z3.Or(*bad)], timeout=300000, replay=rph))
    # acceptance consumes the nomination: a second accept right after a successful one fails
    bad2 = [z3.And(op[j] == 2, okv[j], op[j + 1] == 2, okv[j + 1]) for j in range(K - 1)]
    results.append(check(f'{crate}: k={K} histories: acceptance consumes the nomination (no two consecutive successful accepts)', s_assert + [z3.Or(*bad2)], timeout=300000, replay=rph))
    # after a handover the former admin has no admin rights: its nominate/revoke fail while it is not admin
    bad3 = [z3.And(op[j] <= 1, okv[j], snd[j] != adm[j]) for j in range(K)]
    results.append(check(f'{crate}: k={K} histories: nominate/revoke never succeed for a non-admin (former admins included)', s_assert + [z3.Or(*bad3)], timeout=300000, replay=rph))
    # reachability (non-vacuity): a complete handover exists within k steps
    results.append(check(f'{crate}: k={K} histories: a handover is reachable (witness)', s_assert + [z3.Or(*[adm[j + 1] != adm[j] for j in range(K)])], expect_unsat=False))
    return dict(crate=crate, functions=info, results=results, K=K)


if __name__ == '__main__':
    K = int(sys.argv[1]) if len(sys.argv) > 1 else 6
    T = os.environ.get('MIR_DIR', '/verif/.target')
    out = [run('staking', f'{T}/staking.mir', '/repo/contracts/staking/src/state.rs', K), run('treasury', f'{T}/treasury.mir', '/repo/contracts/treasury/src/state.rs', K)]
    print(json.dumps(out, indent=1, default=str))
