#!/usr/bin/env python3
"""Engine M core: abstract symbolic execution of rustc MIR text (-Zunpretty=mir) into transition
relations  [(path condition, outcome, effects)]  over Z3 terms.

Integers / bools / discriminants are precise; structs and enums are lazy field trees; references are
aliases of places (per call frame); calls are inlined (functions of the repository listed by the
query), summarised (library functions with a semantic summary) or opaque (fresh uninterpreted object).
Anything a query depends on that flows through an opaque call makes that query inconclusive - the
queries check this by inspecting the free symbols of the formulas they use.
"""
import re, itertools
import z3

U64 = 2 ** 64


def split_top(s, sep=','):
    out, depth, cur, i = [], 0, '', 0
    instr = False
    while i < len(s):
        c = s[i]
        if c == '"' and (i == 0 or s[i - 1] != '\\'):
            instr = not instr
        if not instr:
            if c in '([{':
                depth += 1
            elif c in ')]}':
                depth -= 1
            elif c == '<' and s[i - 1:i] != ' ' and s[i + 1:i + 2] != ' ' and s[i + 1:i + 2] != '=':
                depth += 1
            elif c == '>' and s[i - 1:i] not in ('-', '=', ' ') and depth > 0:
                depth -= 1
            if c == sep and depth == 0:
                out.append(cur.strip())
                cur = ''
                i += 1
                continue
        cur += c
        i += 1
    if cur.strip():
        out.append(cur.strip())
    return out


class Fn:
    def __init__(self, name, sig, blocks, locals_, nargs):
        self.name, self.sig, self.blocks, self.locals, self.nargs = name, sig, blocks, locals_, nargs


class Module:
    """All function bodies of one MIR dump."""

    def __init__(self, text):
        self.text = text
        self.fns = {}
        for m in re.finditer(r'^fn (.+?)\((.*?)\) -> (.*?) \{\n', text, re.M):
            name = m.group(1)
            start = m.end()
            end = text.find('\n}\n', start)
            body = text[start:end]
            blocks = {}
            for bm in re.finditer(r'^    (bb\d+)( \(cleanup\))?: \{\n(.*?)^    \}', body, re.M | re.S):
                lines = [l.strip() for l in bm.group(3).split('\n') if l.strip()]
                blocks[bm.group(1)] = (lines, bool(bm.group(2)))
            locals_ = {}
            for lm in re.finditer(r'^\s+let (?:mut )?(_\d+): (.*);$', body, re.M):
                locals_[lm.group(1)] = lm.group(2)
            args = split_top(m.group(2)) if m.group(2).strip() else []
            for a in args:
                am = re.match(r'(_\d+): (.*)$', a)
                if am:
                    locals_[am.group(1)] = am.group(2)
            locals_['_0'] = m.group(3)
            # keep the first definition (generic instances print once)
            if name not in self.fns:
                self.fns[name] = Fn(name, m.group(0), blocks, locals_, len(args))
        self.consts = {}
        for m in re.finditer(r'^(?:const|static) (.+?): (.*?) = \{\n', text, re.M):
            start = m.end()
            end = text.find('\n}\n', start)
            body = text[start:end]
            blocks = {}
            for bm in re.finditer(r'^    (bb\d+)( \(cleanup\))?: \{\n(.*?)^    \}', body, re.M | re.S):
                lines = [l.strip() for l in bm.group(3).split('\n') if l.strip()]
                blocks[bm.group(1)] = (lines, bool(bm.group(2)))
            self.consts[m.group(1)] = Fn(m.group(1), m.group(0), blocks, {}, 0)
        self.simple_consts = {}
        for m in re.finditer(r'^const (.+?): (.*?) = const (.*);$', text, re.M):
            self.simple_consts[m.group(1)] = m.group(3)

    def get(self, name):
        return self.fns.get(name)

    def find(self, pattern):
        return [n for n in self.fns if re.search(pattern, n)]


class P:
    def __init__(s, local, proj=()):
        s.local, s.proj = local, tuple(proj)

    def __repr__(s):
        return '%s%s' % (s.local, ''.join('.%s' % (p,) for p in s.proj))


def parse_place(s):
    s = s.strip()
    if re.fullmatch(r'_\d+', s):
        return P(s)
    if s.startswith('*'):
        p = parse_place(s[1:])
        return P(p.local, p.proj + ('*',))
    assert s[0] == '(' and s[-1] == ')', s
    inner = s[1:-1]
    if inner.startswith('*'):
        p = parse_place(inner[1:])
        return P(p.local, p.proj + ('*',))
    if inner[0] == '(':
        d = 0
        for i, c in enumerate(inner):
            if c == '(':
                d += 1
            elif c == ')':
                d -= 1
                if d == 0:
                    break
        base, rest = inner[:i + 1], inner[i + 1:]
    else:
        m = re.match(r'_\d+', inner)
        base, rest = m.group(0), inner[m.end():]
    bp = parse_place(base)
    if rest.startswith(' as '):
        return P(bp.local, bp.proj + (('as', rest[4:].strip()),))
    m = re.match(r'\.(\d+): ', rest)
    assert m, (s, rest)
    return P(bp.local, bp.proj + (int(m.group(1)),))


class Obj:
    """Lazy symbolic object: scalar view (Int), discriminant (Int), fields; memoised by path name."""
    cnt = itertools.count()

    def __init__(s, name):
        s.name, s.fields, s._scalar, s._disc = name, {}, None, None
        s.opaque = False

    def scalar(s):
        if s._scalar is None:
            s._scalar = z3.Int(s.name)
        return s._scalar

    def disc(s):
        if s._disc is None:
            s._disc = z3.Int(s.name + '#d')
        return s._disc

    def get(s, k):
        if k == '*':
            return s
        if k not in s.fields:
            o = Obj('%s.%s' % (s.name, k if not isinstance(k, tuple) else k[1]))
            o.opaque = s.opaque
            s.fields[k] = o
        return s.fields[k]

    def clone(s):
        o = Obj(s.name)
        o._scalar, o._disc, o.opaque = s._scalar, s._disc, s.opaque
        o.fields = {k: (v.clone() if isinstance(v, Obj) else v) for k, v in s.fields.items()}
        for attr in ('e', 'items'):
            if hasattr(s, attr):
                setattr(o, attr, getattr(s, attr))
        return o


def const_obj(v):
    o = Obj('c%d' % next(Obj.cnt))
    o._scalar = z3.IntVal(v) if not isinstance(v, z3.ExprRef) else v
    return o


def bool_obj(b):
    return const_obj(z3.If(b, z3.IntVal(1), z3.IntVal(0)))


def enum_obj(d, variant=None, payload=None):
    o = Obj('e%d' % next(Obj.cnt))
    o._disc = z3.IntVal(d) if isinstance(d, int) else d
    if variant is not None:
        o.fields[('as', variant)] = payload
    return o


def opaque_obj(tag):
    o = Obj('opq%d:%s' % (next(Obj.cnt), tag[:60]))
    o.opaque = True
    return o


class Ref:
    def __init__(s, frame, place):
        s.frame, s.place = frame, place


class Path:
    def __init__(s):
        s.frames, s.cond, s.effects, s.outcome = [{}], [], [], None
        s.notes = []

    def fork(s):
        p = Path()
        p.frames = [{k: (v.clone() if isinstance(v, Obj) else v) for k, v in f.items()} for f in s.frames]
        p.cond, p.effects, p.notes = list(s.cond), list(s.effects), list(s.notes)
        return p

    def deref(s, o):
        n = 0
        while isinstance(o, Ref):
            o = s.read(o.place, o.frame)
            n += 1
            assert n < 50
        return o

    def read(s, pl, frame=-1):
        if frame < 0:
            frame = len(s.frames) + frame
        env = s.frames[frame]
        if pl.local not in env:
            env[pl.local] = Obj('f%d%s' % (frame, pl.local) if frame else pl.local)
        o = env[pl.local]
        for k in pl.proj:
            o = s.deref(o)
            o = o.get(k)
        return o

    def write(s, pl, val, frame=-1):
        if frame < 0:
            frame = len(s.frames) + frame
        if not pl.proj:
            s.frames[frame][pl.local] = val
            return
        o = s.read(P(pl.local, pl.proj[:-1]), frame)
        if pl.proj[-1] == '*':
            # *ref = val  : overwrite the referent
            assert isinstance(o, Ref), 'write through non-reference'
            s.write(o.place, val, o.frame)
            return
        o = s.deref(o)
        o.fields[pl.proj[-1]] = val


VARIANTS = {'Continue': 0, 'Break': 1, 'None': 0, 'Some': 1, 'Ok': 0, 'Err': 1}
BIN = {'Lt': lambda a, b: a < b, 'Le': lambda a, b: a <= b, 'Gt': lambda a, b: a > b, 'Ge': lambda a, b: a >= b, 'Eq': lambda a, b: a == b, 'Ne': lambda a, b: a != b}


CURRENT = [None]


def lookup_const(name):
    eng = CURRENT[0]
    if eng is None:
        return None
    # generic arguments are dropped in the names of const definitions (`f::<impl T>::promoted[0]` is defined as `f::promoted[0]`)
    name = re.sub(r'::<[^:]*>', '', name)
    parts = name.split('::')
    for mod in eng.modules:
        for k in range(len(parts)):
            cand = '::'.join(parts[k:])
            if cand in mod.consts:
                return ('body', mod.consts[cand])
            if cand in mod.simple_consts:
                return ('simple', mod.simple_consts[cand])
    return None


def operand(path, s):
    s = s.strip()
    if s.startswith(('copy ', 'move ')):
        o = path.read(parse_place(s[5:]))
        return o.clone() if isinstance(o, Obj) else o
    if s.startswith('const '):
        c = s[6:]
        m = re.match(r'(-?[\d_]+)_(?:u|i)(?:\d+|size)$', c)
        if m:
            return const_obj(int(m.group(1).replace('_', '')))
        if c in ('true', 'false'):
            return const_obj(1 if c == 'true' else 0)
        lc = lookup_const(c)
        if lc is not None and lc[0] == 'simple':
            return operand(path, 'const ' + lc[1])
        if lc is not None and lc[0] == 'body' and len(path.frames) < 8:
            eng = CURRENT[0]
            saved_done = eng.done
            eng.done = []
            try:
                res = eng.run_fn(lc[1], path, [])
            finally:
                eng.done = saved_done
            if len(res) == 1 and res[0][0] is path:
                rv = res[0][1]
                # the promoted value lives in the (popped) const frame: materialise it
                if isinstance(rv, Ref):
                    rv = path_deref_frame(path, rv, lc[1])
                return rv
        o = Obj('const:' + c)
        return o
    # function items / other zero-sized values passed by name
    return Obj('item:' + s[:60])


def path_deref_frame(path, ref, fn):
    return getattr(path, '_last_const_frame', {}).get(ref.place.local, Obj('constref'))


class Unsupported(Exception):
    pass


class Engine:
    def __init__(self, modules, summaries, inline=(), maxpaths=3000, width_of=None):
        self.modules = modules      # list of Module, searched in order
        self.summaries = summaries  # list of (regex, fn(engine, path, argv, callee, dst_type))
        self.inline = list(inline)  # regexes of callee names to inline
        self.maxpaths = maxpaths
        self.unsupported = []       # constructs treated opaquely (reported in evidence)
        self.opaque_calls = {}
        self.solver_checks = 0

    def lookup(self, callee):
        name = re.sub(r'::<.*>$', '', callee.strip())
        cands = [name, name.split('::')[-1]]
        # `milky_way::staking::Batch::new` -> `staking::Batch::new` / `Batch::new`
        parts = name.split('::')
        for k in range(1, len(parts)):
            cands.append('::'.join(parts[k:]))
        for m in self.modules:
            for c in cands:
                f = m.get(c)
                if f is not None:
                    return f
                # impl methods are printed as `<impl at ...>::name` or `staking::<impl at ..>::name`
            tail = parts[-1]
            for n, f in m.fns.items():
                if n.endswith('>::' + tail) and len(parts) >= 2 and parts[-2] in ('Batch', 'Config'):
                    return f
        return None

    def feasible(self, conds):
        self.solver_checks += 1
        s = z3.Solver()
        s.set('timeout', 5000)
        s.add(*conds)
        return s.check() != z3.unsat

    def run_fn(self, fn, path, args, depth=0):
        """Executes `fn` on `path` in a new frame; returns [(path, retval)] for returning paths; paths that
        end otherwise (panic / unreachable) are appended to self.done."""
        if depth > 6:
            raise Unsupported('inline depth')
        frame = {}
        for i, a in enumerate(args):
            frame['_%d' % (i + 1)] = a
        path.frames.append(frame)
        results = []
        work = [(path, 'bb0')]
        while work:
            p, bb = work.pop()
            while True:
                lines, cleanup = fn.blocks[bb]
                nxt = None
                ended = False
                for ln in lines:
                    ln = ln.rstrip(';')
                    if ln.startswith(('StorageLive', 'StorageDead', 'FakeRead', 'PlaceMention', 'AscribeUserType', 'nop', 'Retag', 'Deinit', 'Coverage', 'ConstEvalCounter', 'BackwardIncompatibleDropHint')):
                        continue
                    if ln == 'return':
                        rv = p.read(P('_0'))
                        p._last_const_frame = p.frames[-1]
                        p.frames.pop()
                        results.append((p, rv))
                        ended = True
                        break
                    if ln in ('unreachable', 'resume') or ln.startswith('resume'):
                        ended = True  # infeasible arm emitted by rustc / unwind path: dropped
                        break
                    m = re.match(r'goto -> (bb\d+)$', ln)
                    if m:
                        nxt = m.group(1)
                        break
                    m = re.match(r'drop\(.*\) -> \[return: (bb\d+)', ln)
                    if m:
                        nxt = m.group(1)
                        break
                    m = re.match(r'falseEdge -> \[real: (bb\d+)', ln) or re.match(r'falseUnwind -> \[real: (bb\d+)', ln)
                    if m:
                        nxt = m.group(1)
                        break
                    m = re.match(r'switchInt\((.*)\) -> \[(.*)\]$', ln)
                    if m:
                        v = p.deref(operand(p, m.group(1))).scalar()
                        arms = [a.split(': ') for a in m.group(2).split(', ')]
                        taken = []
                        for val, tgt in arms:
                            if val == 'otherwise':
                                c = z3.And(*[v != int(x) for x, _ in arms if x != 'otherwise'])
                            else:
                                c = v == int(val)
                            c = z3.simplify(c)
                            if z3.is_false(c):
                                continue
                            if z3.is_true(c) or self.feasible(p.cond + [c]):
                                taken.append((c, tgt))
                        if not taken:
                            ended = True
                            break
                        for c, tgt in taken[1:]:
                            p2 = p.fork()
                            p2.cond.append(c)
                            work.append((p2, tgt))
                        p.cond.append(taken[0][0])
                        nxt = taken[0][1]
                        break
                    m = re.match(r'assert\((!?)(.*?), "(.*?)".*\) -> \[success: (bb\d+)', ln)
                    if m:
                        v = p.deref(operand(p, m.group(2))).scalar()
                        ok = (v == 0) if m.group(1) else (v != 0)
                        bad = z3.simplify(z3.Not(ok))
                        if not z3.is_false(bad) and self.feasible(p.cond + [bad]):
                            p2 = p.fork()
                            p2.cond.append(bad)
                            p2.outcome = ('panic', '%s: %s' % (fn.name, m.group(3)[:70]))
                            self.done.append(p2)
                        p.cond.append(ok)
                        nxt = m.group(4)
                        break
                    m = re.match(r'(.*?) = (.*) -> \[return: (bb\d+)', ln)
                    call = None
                    if m and m.group(2).endswith(')'):
                        rhs = m.group(2)
                        d = 0
                        instr = False
                        for i in range(len(rhs) - 1, -1, -1):
                            ch = rhs[i]
                            if ch == '"':
                                instr = not instr
                            if instr:
                                continue
                            if ch == ')':
                                d += 1
                            elif ch == '(':
                                d -= 1
                                if d == 0:
                                    break
                        call = (m.group(1), rhs[:i], rhs[i + 1:-1], m.group(3))
                    if call is None:
                        m2 = re.match(r'(.*?) = (.*)\((.*)\) -> unwind', ln)  # diverging call (panic helpers)
                        if m2 or re.match(r'.* -> unwind', ln) and '= ' in ln and '(' in ln and 'return:' not in ln:
                            p.outcome = ('panic', '%s: diverging call %s' % (fn.name, ln[:80]))
                            self.done.append(p)
                            ended = True
                            break
                    if call:
                        dst, callee, argstr, ret = call
                        callee = callee.strip()
                        callee = re.sub(r'^(move|copy) ', '', callee)
                        argv = [operand(p, a) for a in split_top(argstr)] if argstr.strip() else []
                        dst_pl = parse_place(dst)
                        if getattr(self, 'cut_at', None) and re.search(self.cut_at, callee):
                            # prefix analysis: the path is cut here (everything after this call is outside the query)
                            p.outcome = ('cut', callee)
                            self.done.append(p)
                            ended = True
                            break
                        handled = False
                        for pat, sfn in self.summaries:
                            if re.search(pat, callee):
                                res = sfn(self, p, argv, callee)
                                if isinstance(res, tuple) and res and res[0] == 'PANIC':
                                    p.outcome = ('panic', '%s: %s' % (fn.name, res[1]))
                                    self.done.append(p)
                                    ended = True
                                elif isinstance(res, list):
                                    # forking summary: [(cond, value)]
                                    first = True
                                    # alternatives: (cond, value) or (cond, value, effect) where effect(path) mutates the forked path
                                    alts = [a for a in res if self.feasible(p.cond + [a[0]])]
                                    for a in alts[1:]:
                                        p2 = p.fork()
                                        p2.cond.append(a[0])
                                        v = a[2](p2) if len(a) > 2 else a[1]
                                        p2.write(dst_pl, v)
                                        work.append((p2, ret))
                                    if alts:
                                        a = alts[0]
                                        p.cond.append(a[0])
                                        v = a[2](p) if len(a) > 2 else a[1]
                                        p.write(dst_pl, v)
                                    else:
                                        ended = True
                                else:
                                    p.write(dst_pl, res)
                                handled = True
                                break
                        if ended:
                            break
                        if not handled and any(re.search(pat, callee) for pat in self.inline):
                            f2 = self.lookup(callee)
                            if f2 is None:
                                raise Unsupported('inline target not found: ' + callee)
                            subs = self.run_fn(f2, p, argv, depth + 1)
                            # continue every returning sub-path in this frame
                            if not subs:
                                ended = True
                                break
                            for (sp, rv) in subs[1:]:
                                sp.write(dst_pl, rv)
                                work.append((sp, ret))
                            p = subs[0][0]
                            p.write(dst_pl, subs[0][1])
                            handled = True
                        if not handled:
                            key = re.sub(r'\{closure@.*?\}', '{closure}', callee)[:90]
                            self.opaque_calls[key] = self.opaque_calls.get(key, 0) + 1
                            p.write(dst_pl, opaque_obj(key))
                        nxt = ret
                        break
                    m = re.match(r'(.*?) = (.*)$', ln)
                    if not m:
                        raise Unsupported('statement: ' + ln[:100])
                    dst, rv = parse_place(m.group(1)), m.group(2)
                    p.write(dst, self.rvalue(p, rv))
                if ended:
                    break
                if nxt is None:
                    raise Unsupported('block without terminator: %s %s' % (fn.name, bb))
                bb = nxt
            if len(self.done) + len(results) > self.maxpaths:
                raise Unsupported('too many paths')
        return results

    def rvalue(self, p, rv):
        rv = re.sub(r'^no_retag ', '', rv)
        if rv.startswith('&'):
            body = re.sub(r'^&(raw )?(mut |const )?(fake shallow |fake )?', '', rv).strip()
            pl = parse_place(body)
            # reborrow through a reference: alias the same referent
            if pl.proj and pl.proj[-1] == '*':
                inner = p.read(P(pl.local, pl.proj[:-1]))
                if isinstance(inner, Ref):
                    return inner
            return Ref(len(p.frames) - 1, pl)
        if rv.startswith('discriminant('):
            return const_obj(p.deref(p.read(parse_place(rv[13:-1]))).disc())
        head = rv.split('(')[0]
        if head in BIN and re.match(r'\w+\((copy|move|const) ', rv):
            a, b = [p.deref(operand(p, x)).scalar() for x in split_top(rv[rv.index('(') + 1:-1])]
            return bool_obj(BIN[head](a, b))
        m = re.match(r'(Add|Sub|Mul)WithOverflow\(', rv)
        if m:
            a, b = [p.deref(operand(p, x)).scalar() for x in split_top(rv[rv.index('(') + 1:-1])]
            r = {'Add': a + b, 'Sub': a - b, 'Mul': a * b}[m.group(1)]
            val = Obj('t%d' % next(Obj.cnt))
            val.fields[0] = const_obj(r)
            val.fields[1] = bool_obj(z3.Or(r >= U64, r < 0))
            return val
        m = re.match(r'(Add|Sub|Mul)\(', rv)
        if m and re.match(r'\w+\((copy|move|const) ', rv):
            a, b = [p.deref(operand(p, x)).scalar() for x in split_top(rv[rv.index('(') + 1:-1])]
            return const_obj({'Add': a + b, 'Sub': a - b, 'Mul': a * b}[m.group(1)])
        if rv.startswith('Not('):
            a = p.deref(operand(p, rv[4:-1])).scalar()
            return const_obj(1 - a)
        m = re.match(r'(copy|move) (.*) as (.*) \((.*)\)$', rv)
        if m and m.group(2).count('(') == m.group(2).count(')'):
            # casts: integer widening / pointer coercions keep the value
            return operand(p, m.group(1) + ' ' + m.group(2))
        if rv.startswith(('copy ', 'move ', 'const ')):
            return operand(p, rv)
        if (rv[0] == '(' and rv[-1] == ')' or rv[0] == '[' and rv[-1] == ']') and all(x.startswith(('copy ', 'move ', 'const ')) for x in split_top(rv[1:-1])):
            val = Obj('tup%d' % next(Obj.cnt))
            for i_, x in enumerate(split_top(rv[1:-1])):
                val.fields[i_] = operand(p, x)
            return val
        mm = re.match(r'.*::(None|Some|Ok|Err|Continue|Break)(\((.*)\))?$', rv)
        if mm and '{' not in rv:
            pay = Obj('p%d' % next(Obj.cnt))
            if mm.group(3):
                pay.fields[0] = operand(p, mm.group(3))
            return enum_obj(VARIANTS[mm.group(1)], mm.group(1), pay)
        # struct / enum-variant aggregate:  Path { f: op, .. }  or  Enum::Variant { .. } / Enum::Variant
        m = re.match(r'([\w:<>\', &]+?) \{ (.*) \}$', rv) or re.match(r'(\{closure@[^}]*\}) \{ (.*) \}$', rv)
        if m:
            val = Obj('agg%d:%s' % (next(Obj.cnt), m.group(1)[-30:]))
            val.agg_type = m.group(1)
            for i_, fld in enumerate(split_top(m.group(2))):
                fm = re.match(r'(\w+): (.*)$', fld)
                if fm and fm.group(2).startswith(('copy ', 'move ', 'const ')):
                    o = operand(p, fm.group(2))
                    val.fields[i_] = o
                    val.fields[('name', fm.group(1))] = o
            return val
        m = re.match(r'(?:([\w:]+)::)?(\w+)$', rv)
        if m and self.variant_index is not None:
            idx = self.variant_index(m.group(1) or '', m.group(2))
            if idx is not None:
                return enum_obj(idx)
        self.unsupported.append(rv[:80])
        return opaque_obj('rvalue:' + rv[:40])

    variant_index = None

    def relation(self, fn, args):
        """Runs `fn` from a fresh path; returns all finished paths (Ok/Err returns and panics)."""
        self.done = []
        CURRENT[0] = self
        p = Path()
        p.frames = []
        res = self.run_fn(fn, p, args)
        out = []
        for (pp, rv) in res:
            pp.outcome = ('return', rv)
            out.append(pp)
        return out + self.done


def free_symbols(e):
    seen, out, stack = set(), set(), [e]
    while stack:
        x = stack.pop()
        if x.get_id() in seen:
            continue
        seen.add(x.get_id())
        if z3.is_const(x) and x.decl().kind() == z3.Z3_OP_UNINTERPRETED:
            out.add(x.decl().name())
        stack.extend(x.children())
    return out


def mentions_opaque(e):
    return any(n.startswith('opq') for n in free_symbols(e))


def struct_fields(src, name):
    """Field names of `pub struct <name> { .. }` in declaration order (= MIR field indices)."""
    m = re.search(r'pub struct %s\s*\{(.*?)\n\}' % re.escape(name), src, re.S)
    if not m:
        return None
    body = re.sub(r'//.*', '', m.group(1))
    body = re.sub(r'#\[.*?\]', '', body)
    return re.findall(r'pub (\w+)\s*:', body)


def enum_variants(src, name):
    m = re.search(r'pub enum %s\s*\{(.*?)\n\}' % re.escape(name), src, re.S)
    if not m:
        return None
    body = re.sub(r'//.*', '', m.group(1))
    body = re.sub(r'#\[.*?\]', '', body)
    return re.findall(r'^\s*(\w+)\s*(?:,|\{|\(|$)', body, re.M)
