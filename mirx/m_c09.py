#!/usr/bin/env python3
"""C09 (engine M): call composition of the ibc-hooks sender derivation.

`derive_intermediate_sender` and `addess_hash` are executed from the staking MIR with byte strings as
terms of Z3's sequence theory; SHA-256, base32 conversion and bech32 encoding are uninterpreted
functions (library internals are trusted, stated). Z3 must show, for all channel / sender / prefix strings:

  derive(channel, sender, prefix) = bech32_encode(prefix, to_base32(sha256(sha256("ibc-wasm-hook-intermediary") ++ channel ++ "/" ++ sender)), Bech32)

The `format!` template is decoded from the compiler's constant; the decoder is validated against the
real `format!` through the S/native replay (the probe derives the address with the real function).
The unambiguity lemma  c1 ++ "/" ++ s1 = c2 ++ "/" ++ s2  =>  (c1, s1) = (c2, s2)  for channels accepted
by validation (`channel-` + u64 digits, optional leading '+') is decided by cvc5's string solver.
"""
import sys, os, re, json, time, subprocess, tempfile
import z3
sys.path.insert(0, os.path.dirname(os.path.abspath(__file__)))
import mirx, summ
from mirx import Module, Engine, Obj, Ref, P

S = z3.StringSort()
sha = z3.Function('sha256', S, S)
b32 = z3.Function('to_base32', S, S)
bech = z3.Function('bech32_encode', S, S, z3.IntSort(), S)


class SObj(Obj):
    def __init__(s, e):
        super().__init__('s%d' % next(Obj.cnt))
        s.e = e

    def clone(s):
        return s


def sv(path, x):
    x = path.deref(x)
    if not isinstance(x, SObj):
        raise mirx.Unsupported('expected a string value, got %s' % getattr(x, 'name', x))
    return x.e


def decode_const_bytes(c):
    body = re.match(r'b"(.*)"$', c).group(1)
    return bytes(body, 'latin1').decode('unicode_escape').encode('latin1')


def s_new_display(eng, path, argv, callee):
    return SObj(sv(path, argv[0]))


def s_args_new(eng, path, argv, callee):
    name = argv[0].name
    if not name.startswith('const:'):
        raise mirx.Unsupported('format template is not a constant')
    tmpl = decode_const_bytes(name[len('const:'):])
    arr = path.deref(argv[1])
    out, i, ai = z3.StringVal(''), 0, 0
    while i < len(tmpl):
        b = tmpl[i]
        if b == 0:
            break
        if b == 0xC0:
            out = z3.Concat(out, sv(path, arr.fields[ai]))
            ai += 1
            i += 1
        elif b < 0x80:
            out = z3.Concat(out, z3.StringVal(tmpl[i + 1:i + 1 + b].decode()))
            i += 1 + b
        else:
            raise mirx.Unsupported('unsupported format template byte %x' % b)
    return SObj(out)


def s_ident(eng, path, argv, callee):
    return path.deref(argv[0])


_UF = {}


def s_string_fn(eng, path, argv, callee):
    # a string -> string library function the query does not interpret (to_lowercase, trim, ...): an uninterpreted
    # function of its argument, so a derivation that passes its inputs through one is NOT equal to the specification
    # term for all strings and the solver returns a model (replayed on the real function)
    name = re.sub(r'[^A-Za-z_]', '_', callee.split('::')[-1])
    f = _UF.setdefault(name, z3.Function('lib_' + name, S, S))
    return SObj(f(sv(path, argv[0])))


def s_default(eng, path, argv, callee):
    return SObj(z3.StringVal(''))


def s_update(eng, path, argv, callee):
    h = argv[0]
    new = SObj(z3.Concat(sv(path, h), sv(path, argv[1])))
    if not isinstance(h, Ref):
        raise mirx.Unsupported('hasher is not passed by reference')
    path.write(h.place, new, h.frame)
    return Obj('unit')


def s_finalize(eng, path, argv, callee):
    return SObj(sha(sv(path, argv[0])))


def s_b32(eng, path, argv, callee):
    return SObj(b32(sv(path, argv[0])))


def s_bech(eng, path, argv, callee):
    var = getattr(argv[2], 'name', '')
    v = path.deref(argv[2])
    variant = None
    d = z3.simplify(v.disc()) if isinstance(v, Obj) else None
    if d is not None and z3.is_int_value(d):
        variant = d.as_long()
    elif re.search(r'Bech32m$', var):
        variant = 1
    elif re.search(r'Bech32$', var):
        variant = 0
    if variant is None:
        raise mirx.Unsupported('bech32 variant is not a constant: %s' % var)
    pay = Obj('p%d' % next(Obj.cnt))
    pay.fields[0] = SObj(bech(sv(path, argv[0]), sv(path, argv[1]), z3.IntVal(variant)))
    return mirx.enum_obj(0, 'Ok', pay)


def run():
    T = os.environ.get('MIR_DIR', '/verif/.target')
    mod = Module(open(f'{T}/staking.mir').read())
    text = mod.text
    results = []

    def const_str(name):
        mm = re.search(r'^const %s: &str = const "(.*?)";' % re.escape(name.split('::')[-1]), text, re.M)
        return mm.group(1) if mm else None

    def bech_variant(enum, variant):
        if variant in ('Bech32', 'Bech32m') and (enum == '' or enum.endswith('Variant')):
            return 0 if variant == 'Bech32' else 1
        return None

    def s_addess_hash(eng, path, argv, callee):
        typ = argv[0]
        if isinstance(typ, Obj) and typ.name.startswith('const:'):
            lit = re.match(r'const:"(.*)"$', typ.name)
            cs = lit.group(1) if lit else const_str(typ.name[len('const:'):])
            if cs is None:
                raise mirx.Unsupported('domain-separation constant not found: ' + typ.name)
            typ = SObj(z3.StringVal(cs))
        f2 = mod.get('addess_hash')
        subs = eng.run_fn(f2, path, [typ, path.deref(argv[1])], 1)
        if len(subs) != 1:
            raise mirx.Unsupported('addess_hash has %d returning paths' % len(subs))
        return subs[0][1]

    SUMM = [
        (r'Argument::<.*>::new_display', s_new_display),
        (r'Arguments::<.*>::new::<', s_args_new),
        (r'^format$|fmt::format$|^must_use::|::as_bytes$|as Into<\[u8; 32\]>>::into$|as AsRef<\[u8\]>>::as_ref$', s_ident),
        (r'<impl str>::(to_lowercase|to_uppercase|to_ascii_lowercase|to_ascii_uppercase|trim|trim_start|trim_end)$|String::(to_lowercase|to_uppercase)$', s_string_fn),
        (r'Sha256VarCore.* as Default>::default$|as Default>::default$', s_default),
        (r'as Digest>::update::<', s_update),
        (r'as Digest>::finalize$', s_finalize),
        (r'ToBase32>::to_base32$', s_b32),
        (r'bech32::encode::<', s_bech),
        (r'^addess_hash$|helpers::addess_hash$', s_addess_hash),
    ]
    ch, snd, pfx = z3.String('channel'), z3.String('sender'), z3.String('prefix')
    info = {}
    try:
        eng = Engine([mod], SUMM + summ.BASE)
        eng.variant_index = bech_variant
        f = mod.get('derive_intermediate_sender')
        paths = eng.relation(f, [SObj(ch), SObj(snd), SObj(pfx)])
        rets = [p for p in paths if p.outcome[0] == 'return']
        info['derive_intermediate_sender'] = dict(paths=len(paths), returning=len(rets), opaque_calls=sorted(eng.opaque_calls), unsupported=eng.unsupported[:5])
        if len(rets) != 1 or len(paths) != 1:
            results.append(dict(name='derivation has a single straight-line path', result='structural', probe='derive', ok=False, detail=[str(p.outcome[0]) for p in paths]))
        else:
            rv = rets[0].outcome[1]
            okd = z3.simplify(rv.disc())
            got = rv.get(('as', 'Ok')).get(0)
            if not isinstance(got, SObj):
                results.append(dict(name='derivation result is a string term', result='inconclusive: result flows through an opaque call', ok=False, inconclusive=True))
            else:
                spec_e = bech(pfx, b32(sha(z3.Concat(sha(z3.StringVal('ibc-wasm-hook-intermediary')), ch, z3.StringVal('/'), snd))), z3.IntVal(0))
                s = z3.Solver()
                s.set('timeout', 60000)
                s.add(got.e != spec_e)
                t0 = time.time()
                r = s.check()
                res = dict(name='derive(channel, sender, prefix) = bech32(prefix, base32(sha256(sha256("ibc-wasm-hook-intermediary") ++ channel ++ "/" ++ sender)), Bech32) for all strings', result=str(r), time_s=round(time.time() - t0, 3), ok=(r == z3.unsat), derived=str(z3.simplify(got.e)), spec=str(z3.simplify(spec_e)))
                if r == z3.sat:
                    m = s.model()
                    vals = {k: (m.eval(v, model_completion=True).as_string() if m.eval(v, model_completion=True) is not None else '') for k, v in (('channel', ch), ('sender', snd), ('prefix', pfx))}
                    if _UF:
                        # the derivation passes an input through an uninterpreted library function: look for a model among
                        # concrete candidates on which that function is given its real meaning, so that the model replays
                        py = {'to_lowercase': str.lower, 'to_uppercase': str.upper, 'to_ascii_lowercase': str.lower, 'to_ascii_uppercase': str.upper, 'trim': str.strip, 'trim_start': str.lstrip, 'trim_end': str.rstrip}
                        base = {'channel': 'channel-1', 'sender': 'celestia1qqqqqqqqqqqqqqqqqqqqqqqqqqqqqqqqnrql8a', 'prefix': 'osmo'}
                        cands = []
                        for k in ('sender', 'channel', 'prefix'):
                            for alt in (base[k].upper(), ' ' + base[k], base[k] + ' ', base[k][:3].upper() + base[k][3:]):
                                c = dict(base)
                                c[k] = alt
                                cands.append(c)
                        for c in cands:
                            s2 = z3.Solver()
                            s2.set('timeout', 20000)
                            s2.add(got.e != spec_e, ch == z3.StringVal(c['channel']), snd == z3.StringVal(c['sender']), pfx == z3.StringVal(c['prefix']))
                            for name, f in _UF.items():
                                fn = py.get(name)
                                if fn is None:
                                    continue
                                for val in set(c.values()):
                                    s2.add(f(z3.StringVal(val)) == z3.StringVal(fn(val)))
                            if s2.check() == z3.sat:
                                vals = c
                                break
                    res['model'] = vals
                    res['replay'] = dict(kind='derive', model=vals)
                if r == z3.unknown:
                    res['inconclusive'] = True
                results.append(res)
                results.append(dict(name='derivation returns Ok (bech32 encoding of a 32-byte hash cannot fail: trusted library contract)', result='structural', ok=z3.is_int_value(okd) and okd.as_long() == 0))
    except mirx.Unsupported as e:
        results.append(dict(name='MIR executor reaches derive_intermediate_sender', result='inconclusive: ' + str(e), ok=False, inconclusive=True, probe='derive'))

    # ---- unambiguity lemma (cvc5 strings) -----------------------------------------------------
    smt = '''(set-logic ALL)
(declare-const c1 String) (declare-const c2 String) (declare-const s1 String) (declare-const s2 String)
(define-fun chan ((c String)) Bool (str.in_re c (re.++ (str.to_re "channel-") (re.opt (str.to_re "+")) (re.+ (re.range "0" "9")))))
(assert (chan c1)) (assert (chan c2))
(assert (= (str.++ c1 "/" s1) (str.++ c2 "/" s2)))
(assert (or (not (= c1 c2)) (not (= s1 s2))))
(check-sat)
'''
    with tempfile.NamedTemporaryFile('w', suffix='.smt2', delete=False) as tf:
        tf.write(smt)
        fn = tf.name
    t0 = time.time()
    try:
        r = subprocess.run(['cvc5', '--lang', 'smt2', '--tlimit=60000', fn], capture_output=True, text=True, timeout=90)
        out = r.stdout.strip().splitlines()[0] if r.stdout.strip() else 'unknown'
    except Exception as e:
        out = 'unknown'
    os.unlink(fn)
    results.append(dict(name='preimage unambiguity: distinct (channel, sender) pairs accepted by validation never yield the same hash input (cvc5 strings)', result=out, time_s=round(time.time() - t0, 3), ok=(out == 'unsat'), inconclusive=(out not in ('sat', 'unsat'))))
    # validation accepts exactly channel-<u64>: the channel regex above is what `UnsafeProtocolChainConfig::validate` enforces;
    # checked structurally on the MIR: starts_with("channel-") and parse::<u64>() on the stripped rest
    vf = [n for n in mod.fns if n.endswith('UnsafeProtocolChainConfig::validate') or ('types.rs' in n and n.endswith('::validate'))]
    body_ok = False
    for n in vf:
        sig_i = text.find('fn ' + n + '(')
        if sig_i < 0:
            continue
        body = text[sig_i: text.find('\n}\n', sig_i)]
        if 'const "channel-"' in body and 'parse::<u64>' in body and 'starts_with' in body and 'strip_prefix' in body and 'IbcChannelConfigWrong' in body:
            body_ok = True
    results.append(dict(name='configuration validation requires `channel-` followed by a u64 (structural check of validate\'s MIR)', result='structural', ok=body_ok))
    return dict(functions=info, results=results)


if __name__ == '__main__':
    print(json.dumps(run(), indent=1, default=str))
