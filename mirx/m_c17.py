#!/usr/bin/env python3
"""C17 (engine M): loop kernel of the generic `paginate_map`, executed from the staking MIR over a
symbolic store: n <= N items with symbolic strictly ascending keys, a symbolic decode-error flag and a
symbolic filter verdict per item, symbolic `start_after: Option<K>`, symbolic `limit: Option<u32>`,
filter present / absent. `Map::range` is summarised by cw-storage-plus's contract (ascending iteration
over the keys strictly greater than the exclusive bound). The loop is unrolled until every path has
terminated; a path that would need more than N+1 iterations violates the unwinding assertion.
"""
import sys, os, re, json, time
import z3
sys.path.insert(0, os.path.dirname(os.path.abspath(__file__)))
import mirx, summ
from mirx import Module, Engine, Obj, Ref, P, const_obj, bool_obj, enum_obj

KEY = z3.Function('key', z3.IntSort(), z3.IntSort())
ERR = z3.Function('err', z3.IntSort(), z3.IntSort())
FILT = z3.Function('filt', z3.IntSort(), z3.IntSort())
NITEMS = z3.Int('n')
START = z3.Int('start_index')


class Vec(Obj):
    def __init__(s, items=None):
        super().__init__('vec%d' % next(Obj.cnt))
        s.items = list(items or [])

    def clone(s):
        return Vec(s.items)


class Iter(Obj):
    def __init__(s, cur):
        super().__init__('iter%d' % next(Obj.cnt))
        s.cur = cur

    def clone(s):
        return Iter(s.cur)


def run(N):
    T = os.environ.get('MIR_DIR', '/verif/.target')
    mod = Module(open(f'{T}/staking.mir').read())
    f = mod.get('paginate_map')
    results, info = [], {}
    if f is None:
        return dict(functions={}, results=[dict(name='paginate_map present in the MIR dump', result='inconclusive: function not found', ok=False, inconclusive=True)])
    iters = [0]

    def s_opt_map_bound(eng, path, argv, callee):
        o = path.deref(argv[0])
        pay = Obj('p%d' % next(Obj.cnt))
        pay.fields[0] = const_obj(o.get(('as', 'Some')).get(0).scalar())
        r = enum_obj(o.disc())
        r.fields[('as', 'Some')] = pay
        return r

    def s_range(eng, path, argv, callee):
        lo, hi, order = path.deref(argv[2]), path.deref(argv[3]), path.deref(argv[4])
        path.notes.append(('range', lo.disc(), lo.get(('as', 'Some')).get(0).scalar(), hi.disc(), order.disc()))
        return Iter(START)

    def s_next(eng, path, argv, callee):
        ref = argv[0]
        it = path.deref(ref)
        if not isinstance(it, Iter):
            raise mirx.Unsupported('next on a non-iterator')
        cur = it.cur
        iters[0] += 1

        def some(p):
            it2 = p.deref(ref)
            item = enum_obj(ERR(cur))
            tup = Obj('p%d' % next(Obj.cnt))
            kv = Obj('kv%d' % next(Obj.cnt))
            kv.fields[0] = const_obj(KEY(cur))
            val = Obj('val%d' % next(Obj.cnt))
            val._scalar = cur
            kv.fields[1] = val
            tup.fields[0] = kv
            item.fields[('as', 'Ok')] = tup
            pay = Obj('p%d' % next(Obj.cnt))
            pay.fields[0] = item
            p.write(ref.place, Iter(cur + 1), ref.frame)
            return enum_obj(1, 'Some', pay)

        def none(p):
            return enum_obj(0, 'None', Obj('unit'))
        return [(cur < NITEMS, None, some), (cur >= NITEMS, None, none)]

    def s_call_filter(eng, path, argv, callee):
        tup = path.deref(argv[1])
        v = path.deref(tup.get(0))
        return const_obj(FILT(v.scalar()))

    def s_vec_new(eng, path, argv, callee):
        return Vec()

    def s_vec_push(eng, path, argv, callee):
        ref = argv[0]
        vec = path.deref(ref)
        v = path.deref(argv[1])
        if not isinstance(vec, Vec):
            raise mirx.Unsupported('push on a non-vector')
        path.write(ref.place, Vec(vec.items + [v.scalar()]), ref.frame)
        return Obj('unit')

    SUMM = [
        (r'Option::<K>::map::<cw_storage_plus::Bound', s_opt_map_bound),
        (r'Map::<.*>::range::<', s_range),
        (r'as Iterator>::next$', s_next),
        (r'as Fn<\(&V,\)>>::call$', s_call_filter),
        (r'Vec::<V>::new$', s_vec_new),
        (r'Vec::<V>::push$', s_vec_push),
    ]
    U32MAX = 2 ** 32 - 1
    summ_all = SUMM + summ.BASE

    class Eng(Engine):
        pass
    eng = Eng([mod], summ_all, maxpaths=200000)
    # constants such as `core::num::<impl u32>::MAX`
    orig_operand = mirx.operand

    def operand(path, s):
        if s.strip() == 'const core::num::<impl u32>::MAX':
            return const_obj(U32MAX)
        return orig_operand(path, s)
    mirx.operand = operand
    deps, mp, start, limit, order, flt = Obj('deps'), Obj('map'), Obj('start_after'), Obj('limit'), Obj('order'), Obj('filter')
    SA_D, SA = start.disc(), start.get(('as', 'Some')).get(0).scalar()
    LIM_D, LIM = limit.disc(), limit.get(('as', 'Some')).get(0).scalar()
    FLT_D = flt.disc()
    # domain: n <= N, keys strictly ascending, flags boolean, Ascending order (the only order the contract uses), start index per the range contract
    dom = [NITEMS >= 0, NITEMS <= N, z3.Or(SA_D == 0, SA_D == 1), z3.Or(LIM_D == 0, LIM_D == 1), z3.Or(FLT_D == 0, FLT_D == 1), LIM >= 0, LIM <= U32MAX, SA >= 0, order.disc() == 1,
           START >= 0, START <= NITEMS]
    for i in range(N):
        dom += [z3.Or(ERR(i) == 0, ERR(i) == 1), z3.Or(FILT(i) == 0, FILT(i) == 1), KEY(i) >= 0]
        if i:
            dom.append(z3.Implies(i < NITEMS, KEY(i - 1) < KEY(i)))
        # range contract: items before the start index are <= the cursor, items from it on are > the cursor
        dom.append(z3.Implies(z3.And(SA_D == 1, i < START), KEY(i) <= SA))
        dom.append(z3.Implies(z3.And(SA_D == 1, i >= START, i < NITEMS), KEY(i) > SA))
    dom.append(z3.Implies(SA_D == 0, START == 0))
    t0 = time.time()
    # pre-load the domain as initial path condition so infeasible forks are pruned
    orig_relation = eng.relation

    def relation_with_dom(fn, args):
        eng.done = []
        mirx.CURRENT[0] = eng
        p = mirx.Path()
        p.frames = []
        p.cond = list(dom)
        res = eng.run_fn(fn, p, args)
        out = []
        for (pp, rv) in res:
            pp.outcome = ('return', rv)
            out.append(pp)
        return out + eng.done
    try:
        paths = relation_with_dom(f, [deps, mp, start, limit, order, flt])
    except mirx.Unsupported as e:
        mirx.operand = orig_operand
        return dict(functions={}, results=[dict(name='MIR executor reaches paginate_map', result='inconclusive: ' + str(e), ok=False, inconclusive=True)])
    mirx.operand = orig_operand
    info['paginate_map'] = dict(paths=len(paths), next_calls=iters[0], N=N, wall_s=round(time.time() - t0, 1), opaque_calls=sorted(eng.opaque_calls), unsupported=eng.unsupported[:5])
    rets = [p for p in paths if p.outcome[0] == 'return']
    pan = [p for p in paths if p.outcome[0] == 'panic']
    results.append(dict(name=f'paginate_map: all {len(paths)} paths terminate by returning (unwinding bound N+1 = {N + 1} iterations suffices)', result='structural', ok=len(rets) == len(paths) - len(pan) and len(rets) > 0))
    for site in sorted(set(p.outcome[1] for p in pan)):
        cs = [z3.And(*p.cond) for p in pan if p.outcome[1] == site]
        s = z3.Solver()
        s.add(z3.Or(*cs))
        r = s.check()
        results.append(dict(name=f'paginate_map: panic site unreachable [{site}]', result=str(r), ok=(r == z3.unsat), prop='C16'))
    # the specification, per returning path
    bad = []
    n_checked = 0

    def match(i):
        return z3.And(i >= START, i < NITEMS, ERR(i) == 0, z3.Or(FLT_D == 0, FILT(i) == 1))
    eff_limit = z3.If(LIM_D == 1, LIM, z3.IntVal(U32MAX))
    worst = None
    for p in rets:
        rv = p.outcome[1]
        vec = rv.get(('as', 'Ok')).get(0)
        if not isinstance(vec, Vec):
            results.append(dict(name='paginate_map: result vector is tracked', result='inconclusive: result flows through an opaque call', ok=False, inconclusive=True))
            break
        js = vec.items
        r = len(js)
        # where the scan stopped: find the iterator
        it = None
        for fr in [p._last_const_frame] if hasattr(p, '_last_const_frame') else []:
            for v in fr.values():
                if isinstance(v, Iter):
                    it = v
        if it is None:
            results.append(dict(name='paginate_map: iterator state is tracked', result='inconclusive', ok=False, inconclusive=True))
            break
        end = it.cur
        spec = []
        for t, j in enumerate(js):
            spec.append(match(j))
            if t:
                spec.append(js[t - 1] < j)
        # observable specification: a matching item is missing from the result only if the limit has been
        # reached and the item lies after the last returned one (so the next page, which starts after that key, yields it)
        for i in range(N):
            missing = z3.And(match(i), z3.And(*[j != i for j in js]) if js else z3.BoolVal(True))
            allowed = z3.And(r == eff_limit, (i > js[-1]) if js else z3.BoolVal(True))
            spec.append(z3.Implies(missing, allowed))
        spec.append(r <= eff_limit)
        s = z3.Solver()
        s.set('timeout', 30000)
        s.add(*p.cond)
        s.add(z3.Not(z3.And(*spec)))
        c = s.check()
        n_checked += 1
        if c != z3.unsat:
            m = s.model() if c == z3.sat else None
            worst = (c, m, p, js, end)
            break
    if worst is None:
        results.append(dict(name=f'paginate_map: on every returning path ({n_checked}) the result is exactly the first min(limit, #matches) items after the cursor that decode and pass the filter, ascending, each once (hence pages chained through the last returned key reproduce the unpaginated result)', result='unsat', ok=True, time_s=round(time.time() - t0, 1)))
    else:
        c, m, p, js, end = worst
        res = dict(name='paginate_map: result = first min(limit, #matches) matching items after the cursor, ascending, nothing skipped', result=str(c), ok=False)
        if m is not None:
            ev = lambda e: m.eval(e, model_completion=True).as_long()
            n = ev(NITEMS)
            model = {'n': n, 'start_after_present': ev(SA_D), 'start_after': ev(SA), 'limit_present': ev(LIM_D), 'limit': ev(LIM), 'filter_present': ev(FLT_D),
                     'keys': [ev(KEY(i)) for i in range(n)], 'err': [ev(ERR(i)) for i in range(n)], 'filt': [ev(FILT(i)) for i in range(n)], 'returned_indices': [ev(j) for j in js]}
            res['model'] = model
            res['replay'] = dict(kind='paginate', model={k: json.dumps(v) for k, v in model.items()})
        else:
            res['inconclusive'] = True
        results.append(res)
    return dict(functions=info, results=results)


if __name__ == '__main__':
    N = int(sys.argv[1]) if len(sys.argv) > 1 else 4
    print(json.dumps(run(N), indent=1, default=str))
