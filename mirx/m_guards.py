#!/usr/bin/env python3
"""Guard dominance for every state (engine M), complementing the enumerated matrices of engine S:
every path of a handler that can return Ok carries its halt / admin / hook-sender guard, and the
configuration-writing handlers change only what the property allows (C08, C09, C10, C14).
"""
import sys, os, re, json, time
import z3
sys.path.insert(0, os.path.dirname(os.path.abspath(__file__)))
import mirx, summ
from mirx import Module, Engine, Obj


def check(name, assertions, prop, expect_unsat=True, timeout=30000):
    s = z3.Solver()
    s.set('timeout', timeout)
    s.add(*assertions)
    t = time.time()
    r = s.check()
    res = dict(name=name, result=str(r), time_s=round(time.time() - t, 3), prop=prop)
    if r == z3.sat:
        m = s.model()
        res['model'] = {str(d): str(m[d]) for d in m.decls() if not str(d).startswith(('k!', 'opq'))}
    res['ok'] = (r == z3.unsat) if expect_unsat else (r == z3.sat)
    if r == z3.unknown:
        res['inconclusive'] = True
    return res


def same_tree(a, b, depth=0):
    """z3 conjunct list stating that two lazy objects are equal on every field either of them materialised."""
    out = []
    keys = set(a.fields) | set(b.fields)
    keys = {k for k in keys if not (isinstance(k, tuple) and k[0] == 'name')}
    if a._scalar is not None or b._scalar is not None or not keys:
        out.append(a.scalar() == b.scalar())
    if a._disc is not None or b._disc is not None:
        out.append(a.disc() == b.disc())
    if depth < 6:
        for k in keys:
            x, y = a.get(k), b.get(k)
            if isinstance(x, Obj) and isinstance(y, Obj):
                out += same_tree(x, y, depth + 1)
    return out


def run():
    T = os.environ.get('MIR_DIR', '/verif/.target')
    stk = Module(open(f'{T}/staking.mir').read())
    mw = Module(open(f'{T}/milky_way.mir').read())
    src_state = open('/repo/contracts/staking/src/state.rs').read()
    cf = mirx.struct_fields(src_state, 'Config')
    ncf = mirx.struct_fields(src_state, 'NativeChainConfig')
    pcf = mirx.struct_fields(src_state, 'ProtocolChainConfig')
    sf = mirx.struct_fields(src_state, 'State')
    cfg = Obj('pre:Config')
    STOPPED = cfg.get(cf.index('stopped')).scalar()
    ADMIN = summ.ADMIN
    results, info = [], {}

    def relation(fn, inline=()):
        f = stk.get(fn)
        assert f is not None, fn
        eng = Engine([stk, mw], summ.BASE, inline=[r'^check_stopped$|execute::check_stopped$'] + list(inline), maxpaths=6000)
        args = [Obj(n) for n in ['deps', 'env', 'info', 'a3', 'a4', 'a5', 'a6', 'a7'][:f.nargs]]
        paths = eng.relation(f, args)
        oks = []
        kinds = {}
        for p in paths:
            k = p.outcome[0]
            if k == 'return':
                d = z3.simplify(p.outcome[1].disc())
                k = ('ok' if d.as_long() == 0 else 'err') if z3.is_int_value(d) else 'sym'
            kinds[k] = kinds.get(k, 0) + 1
            if k in ('ok', 'sym'):
                oks.append(p)
        info[fn] = dict(paths=len(paths), kinds=kinds, solver_checks=eng.solver_checks)
        return oks, paths

    SND = Obj('info').get(0).scalar()
    dom = [z3.Or(STOPPED == 0, STOPPED == 1)]
    # ---- halt guard -------------------------------------------------------------------------
    for fn in ['execute_liquid_stake', 'execute_liquid_unstake', 'execute_submit_batch', 'execute_withdraw', 'receive_rewards', 'receive_unstaked_tokens']:
        try:
            oks, _ = relation(fn, inline=[r'Batch::new$', r'Batch::update_status$', r'checked_deadline$'])
        except mirx.Unsupported as e:
            results.append(dict(name=f'{fn}: MIR executor reaches the handler', result='inconclusive: ' + str(e), ok=False, inconclusive=True, prop='C10'))
            continue
        results.append(dict(name=f'{fn}: has a path that can return Ok (non-vacuity)', result='structural', ok=len(oks) > 0, prop='C10'))
        if oks:
            results.append(check(f'{fn}: every path that can return Ok requires stopped = false, for every state', dom + [z3.Or(*[z3.And(*p.cond) for p in oks]), STOPPED != 0], 'C10'))
    # ---- admin guard ------------------------------------------------------------------------
    for fn in ['execute_add_validator', 'execute_remove_validator', 'execute_transfer_ownership', 'execute_revoke_ownership_transfer', 'update_config', 'resume_contract', 'fee_withdraw']:
        try:
            oks, _ = relation(fn)
        except mirx.Unsupported as e:
            results.append(dict(name=f'{fn}: MIR executor reaches the handler', result='inconclusive: ' + str(e), ok=False, inconclusive=True, prop='C08'))
            continue
        results.append(dict(name=f'{fn}: has a path that can return Ok (non-vacuity)', result='structural', ok=len(oks) > 0, prop='C08'))
        if oks:
            results.append(check(f'{fn}: every path that can return Ok requires sender = current admin, for every state', dom + [z3.Or(*[z3.And(*p.cond) for p in oks]), SND != ADMIN], 'C08'))
    # ---- forced recovery: prefix of `recover` up to the configuration load (the loops after it are outside engine M) ----
    try:
        f = stk.get('recover')
        eng = Engine([stk, mw], summ.BASE, maxpaths=2000)
        eng.cut_at = r"Item::<'_, state::Config>::load$|Item::<.*Config>::load$"
        args = [Obj(n) for n in ['deps', 'env', 'info', 'selected', 'receiver', 'page']]
        paths = eng.relation(f, args)
        cuts = [p for p in paths if p.outcome[0] == 'cut']
        info['recover(prefix)'] = dict(paths=len(paths), cut=len(cuts))
        SEL_D = Obj('selected').disc()
        results.append(dict(name='recover: the guard prefix reaches the configuration load (non-vacuity)', result='structural', ok=len(cuts) > 0, prop='C08'))
        if cuts:
            results.append(check('recover: with selected_packets = Some(..) the handler continues past its guard only for the current admin, for every state', dom + [z3.Or(SEL_D == 0, SEL_D == 1), z3.Or(*[z3.And(*p.cond) for p in cuts]), SEL_D == 1, SND != ADMIN], 'C08'))
            results.append(check('recover: without a selection anyone passes the guard (witness)', dom + [z3.Or(*[z3.And(*p.cond) for p in cuts]), SEL_D == 0, SND != ADMIN], 'C08', expect_unsat=False))
    except (mirx.Unsupported, AssertionError) as e:
        results.append(dict(name='recover: MIR executor reaches the guard prefix', result='inconclusive: ' + str(e), ok=False, inconclusive=True, prop='C08'))
    # ---- circuit breaker ----------------------------------------------------------------------
    try:
        oks, _ = relation('circuit_breaker')
        conds = []
        for p in oks:
            c = z3.And(*p.cond)
            anys = [z3.Int(n) for n in mirx.free_symbols(c) if 'Iterator>::any' in n]
            conds.append(z3.And(c, *[a == 0 for a in anys]))
        results.append(check('circuit_breaker: returns Ok only for the admin or when the monitor list contains the sender', dom + [z3.Or(*conds) if conds else z3.BoolVal(False), SND != ADMIN], 'C08'))
        for n, p in enumerate(oks):
            saves = [e for e in p.effects if e[0] == 'save']
            okshape = len(saves) == 1 and saves[0][1] == 'Config' and not any(e[0] in ('msave', 'admin_set') for e in p.effects)
            results.append(dict(name=f'circuit_breaker[{n}]: the only effect is one Config save', result='structural', ok=okshape, prop='C10'))
            if okshape:
                new = saves[0][2]
                others = []
                for i, fname in enumerate(cf):
                    if fname == 'stopped':
                        continue
                    others += same_tree(new.get(i), cfg.get(i))
                results.append(check(f'circuit_breaker[{n}]: sets stopped = true and leaves every other configuration field as loaded', dom + [z3.And(*p.cond), z3.Not(z3.And(new.get(cf.index('stopped')).scalar() == 1, *others))], 'C10'))
    except mirx.Unsupported as e:
        results.append(dict(name='circuit_breaker: MIR executor reaches the handler', result='inconclusive: ' + str(e), ok=False, inconclusive=True, prop='C10'))
    # ---- resume -------------------------------------------------------------------------------
    try:
        oks, _ = relation('resume_contract')
        for n, p in enumerate(oks):
            saves = [e for e in p.effects if e[0] == 'save']
            cs = [e for e in saves if e[1] == 'Config']
            results.append(dict(name=f'resume_contract[{n}]: saves the configuration once and touches no batch / admin', result='structural', ok=len(cs) == 1 and not any(e[0] in ('msave', 'admin_set') for e in p.effects), prop='C10'))
            if len(cs) == 1:
                new = cs[0][2]
                others = []
                for i, fname in enumerate(cf):
                    if fname == 'stopped':
                        continue
                    others += same_tree(new.get(i), cfg.get(i))
                results.append(check(f'resume_contract[{n}]: sets stopped = false and leaves every other configuration field as loaded', dom + [z3.And(*p.cond), z3.Not(z3.And(new.get(cf.index('stopped')).scalar() == 0, *others))], 'C10'))
            # the totals: exactly the supplied values, every other State field as loaded
            ss = [e for e in saves if e[1] == 'State']
            results.append(dict(name=f'resume_contract[{n}]: saves the state exactly once', result='structural', ok=len(ss) == 1, prop='C10'))
            if len(ss) == 1:
                ns, st = ss[0][2], Obj('pre:State')
                a3, a4, a5 = Obj('a3'), Obj('a4'), Obj('a5')
                want = {sf.index('total_native_token'): a3, sf.index('total_liquid_stake_token'): a4, sf.index('total_reward_amount'): a5}
                eqs = []
                for i, fname in enumerate(sf):
                    eqs += same_tree(ns.get(i), want[i] if i in want else st.get(i))
                results.append(check(f'resume_contract[{n}]: staked, LST and reward totals saved are exactly the supplied values and every other State field is as loaded, for all arguments and states', dom + [z3.And(*p.cond), z3.Not(z3.And(*eqs))], 'C10'))
    except mirx.Unsupported as e:
        results.append(dict(name='resume_contract: MIR executor reaches the handler', result='inconclusive: ' + str(e), ok=False, inconclusive=True, prop='C10'))
    # ---- hook sender of receive_rewards ---------------------------------------------------------
    try:
        oks, _ = relation('receive_rewards')
        for n, p in enumerate(oks):
            der = [nt for nt in p.notes if nt[0] == 'derive']
            good = len(der) == 1
            results.append(dict(name=f'receive_rewards[{n}]: the sender derivation is evaluated once', result='structural', ok=good, prop='C08', props=['C08', 'C09']))
            if good:
                want = summ.DERIVE(der[0][1], der[0][2], der[0][3])
                r_ = check(f'receive_rewards[{n}]: sender equals derive(current channel, current collector, current prefix)', dom + [z3.And(*p.cond), SND != want], 'C08')
                r_['props'] = ['C08', 'C09']
                pc = cfg.get(cf.index('protocol_chain_config'))
                r_['ok'] = r_['ok'] and z3.eq(der[0][1], pc.get(pcf.index('ibc_channel_id')).scalar()) and z3.eq(der[0][2], cfg.get(cf.index('native_chain_config')).get(ncf.index('reward_collector_address')).scalar()) and z3.eq(der[0][3], pc.get(pcf.index('account_address_prefix')).scalar())
                results.append(r_)
    except mirx.Unsupported as e:
        results.append(dict(name='receive_rewards: MIR executor reaches the handler', result='inconclusive: ' + str(e), ok=False, inconclusive=True, prop='C08'))
    # ---- update_config frame (C14) ----------------------------------------------------------------
    try:
        oks, _ = relation('update_config')
        i_lst, i_stop = cf.index('liquid_stake_token_denom'), cf.index('stopped')
        bad_shape = 0
        cs_all = []
        for p in oks:
            saves = [e for e in p.effects if e[0] == 'save']
            if len(saves) != 1 or saves[0][1] != 'Config' or any(e[0] in ('msave', 'admin_set') for e in p.effects):
                bad_shape += 1
                continue
            new = saves[0][2]
            cs_all.append(z3.And(z3.And(*p.cond), z3.Not(z3.And(*(same_tree(new.get(i_lst), cfg.get(i_lst)) + same_tree(new.get(i_stop), cfg.get(i_stop)))))))
        results.append(dict(name='update_config: every Ok path saves the configuration exactly once and nothing else', result='structural', ok=bad_shape == 0 and len(oks) > 0, prop='C14'))
        if cs_all:
            results.append(check('update_config: the LST denom and the halted flag saved are the loaded ones on every Ok path, for all messages and states', dom + [z3.Or(*cs_all)], 'C14'))
        # sections not supplied stay as loaded: arguments a3..a7 are the five Option sections
        secs = [('native_chain_config', 'a3'), ('protocol_chain_config', 'a4'), ('protocol_fee_config', 'a5'), ('monitors', 'a6'), ('batch_period', 'a7')]
        for fname, arg in secs:
            i = cf.index(fname)
            absent = Obj(arg).disc() == 0
            bad = []
            for p in oks:
                saves = [e for e in p.effects if e[0] == 'save' and e[1] == 'Config']
                if len(saves) == 1:
                    bad.append(z3.And(z3.And(*p.cond), absent, z3.Not(z3.And(*same_tree(saves[0][2].get(i), cfg.get(i))))))
            if bad:
                results.append(check(f'update_config: section {fname} is saved as loaded when it is not supplied, for all messages and states', dom + [z3.Or(*bad)], 'C14'))
    except mirx.Unsupported as e:
        results.append(dict(name='update_config: MIR executor reaches the handler', result='inconclusive: ' + str(e), ok=False, inconclusive=True, prop='C14'))
    return dict(functions=info, results=results)


if __name__ == '__main__':
    print(json.dumps(run(), indent=1, default=str))
