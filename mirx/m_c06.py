#!/usr/bin/env python3
"""C06 / C16 (engine M): time clauses of SubmitBatch and ReceiveUnstakedTokens and the u64 arithmetic
of instantiate / submit, from the MIR of the staking crate (check_stopped, Batch::new and
Batch::update_status are inlined from the staking / milky_way MIR).

All `u64` block times, deadlines and periods are symbolic. Bounds: now < 2^33 s; where stated, periods < 2^40.
"""
import sys, os, re, json, time
import z3
sys.path.insert(0, os.path.dirname(os.path.abspath(__file__)))
import mirx, summ
from mirx import Module, Engine, Obj

TMAX = 2 ** 33
PMAX = 2 ** 40
U64 = 2 ** 64


REPLAY_KIND = [None]


def check(name, assertions, expect_unsat=True, timeout=60000, prop='C06'):
    s = z3.Solver()
    s.set('timeout', timeout)
    s.add(*assertions)
    t = time.time()
    r = s.check()
    res = dict(name=name, result=str(r), time_s=round(time.time() - t, 3), prop=prop)
    if r == z3.sat:
        m = s.model()
        res['model'] = {str(d): str(m[d]) for d in m.decls() if not str(d).startswith(('k!', 'opq'))}
    res['ok'] = (r == z3.unsat) if expect_unsat else (r == z3.sat)
    if REPLAY_KIND[0] and not expect_unsat and r != z3.sat:
        # a reachability witness disappeared: replay the canonical boundary scenario (now == deadline)
        res['replay'] = dict(kind=REPLAY_KIND[0], model={'env.0.1': '5000000', 'pre:u64, Batch.6#d': '1', 'pre:u64, Batch.6.Some.0': '5000000', 'pre:u64, Batch.7#d': '0' if REPLAY_KIND[0] == 'submit' else '1', 'pre:Config.6': '0'})
    if REPLAY_KIND[0] and r == z3.sat and expect_unsat:
        res['replay'] = dict(kind=REPLAY_KIND[0], model=res['model'])
    return res


def variant_index_factory(src_mw):
    st = mirx.enum_variants(src_mw, 'BatchStatus')

    def vi(enum, variant):
        if (enum.endswith('BatchStatus') or enum == '') and variant in st:
            return st.index(variant)
        return None
    return vi, st


def run():
    T = os.environ.get('MIR_DIR', '/verif/.target')
    stk = Module(open(f'{T}/staking.mir').read())
    mw = Module(open(f'{T}/milky_way.mir').read())
    src_state = open('/repo/contracts/staking/src/state.rs').read()
    src_mw = open('/repo/packages/milky_way/src/staking.rs').read()
    cf = mirx.struct_fields(src_state, 'Config')
    ncf = mirx.struct_fields(src_state, 'NativeChainConfig')
    pcf = mirx.struct_fields(src_state, 'ProtocolChainConfig')
    bf = mirx.struct_fields(src_mw, 'Batch')
    vi, statuses = variant_index_factory(src_mw)
    PEND, SUBM, RECV = statuses.index('Pending'), statuses.index('Submitted'), statuses.index('Received')
    i_stopped, i_period, i_native = cf.index('stopped'), cf.index('batch_period'), cf.index('native_chain_config')
    i_unb = ncf.index('unbonding_period')
    i_id, i_next, i_status, i_exp, i_rcv, i_total = bf.index('id'), bf.index('next_batch_action_time'), bf.index('status'), bf.index('expected_native_unstaked'), bf.index('received_native_unstaked'), bf.index('batch_total_liquid_stake')

    cfg = Obj('pre:Config')
    STOPPED = cfg.get(i_stopped).scalar()
    BP = cfg.get(i_period).scalar()
    UNB = cfg.get(i_native).get(i_unb).scalar()
    batch = Obj('pre:u64, Batch')
    B_ID = batch.get(i_id).scalar()
    B_NEXT_D = batch.get(i_next).disc()
    B_NEXT = batch.get(i_next).get(('as', 'Some')).get(0).scalar()
    B_STATUS = batch.get(i_status).disc()
    B_MISSING = z3.Int('pre:u64, Batch#missing')
    NOW = Obj('env').get(0).get(1).scalar()
    dom = [NOW >= 0, NOW < TMAX, BP >= 0, BP < U64, UNB >= 0, UNB < U64, B_NEXT >= 0, B_NEXT < U64, B_ID >= 1, B_ID < 2 ** 40,
           z3.Or(STOPPED == 0, STOPPED == 1), z3.Or(B_NEXT_D == 0, B_NEXT_D == 1), B_STATUS >= 0, B_STATUS <= 2, z3.Or(B_MISSING == 0, B_MISSING == 1)]
    results = []
    info = {}

    def engine():
        e = Engine([stk, mw], summ.BASE, inline=[r'^check_stopped$|execute::check_stopped$', r'Batch::new$', r'Batch::update_status$', r'checked_deadline$'])
        e.variant_index = vi
        return e

    def outcome_kind(p):
        k, v = p.outcome
        if k == 'panic':
            return 'panic'
        d = z3.simplify(v.disc())
        if z3.is_int_value(d):
            return 'ok' if d.as_long() == 0 else 'err'
        return 'sym'

    # ---------------------------------------------------------------- execute_submit_batch
    f = stk.get('execute_submit_batch')
    REPLAY_KIND[0] = 'submit'
    eng = engine()
    paths = eng.relation(f, [Obj('deps'), Obj('env'), Obj('info')])
    kinds = {}
    for p in paths:
        kinds[outcome_kind(p)] = kinds.get(outcome_kind(p), 0) + 1
    info['execute_submit_batch'] = dict(paths=len(paths), kinds=kinds, opaque_calls=sorted(eng.opaque_calls)[:40], unsupported=eng.unsupported[:5])
    oks = [p for p in paths if outcome_kind(p) in ('ok', 'sym')]
    # an Ok return may have a symbolic discriminant only because of the final opaque Try (update_oracle_msgs);
    # every path that reaches the saves is treated as potentially successful
    oks = [p for p in paths if outcome_kind(p) in ('ok', 'sym') and any(e[0] == 'msave' for e in p.effects)]
    results.append(dict(name='submit: some path performs the batch saves (non-vacuity)', result='structural', ok=len(oks) > 0, prop='C06'))
    for n, p in enumerate(oks):
        c = z3.And(*p.cond)
        results.append(check(f'submit[{n}]: passes only on a running contract', dom + [c, STOPPED != 0]))
        results.append(check(f'submit[{n}]: passes only when the pending batch has a deadline and now >= deadline', dom + [c, z3.Not(z3.And(B_NEXT_D == 1, NOW >= B_NEXT))]))
        msaves = [e for e in p.effects if e[0] == 'msave']
        new_b = [e for e in msaves if z3.is_true(z3.simplify(e[3].get(i_status).disc() == PEND))]
        sub_b = [e for e in msaves if not z3.is_true(z3.simplify(e[3].get(i_status).disc() == PEND))]
        results.append(dict(name=f'submit[{n}]: exactly two batch saves (new pending + submitted)', result='structural', ok=(len(new_b) == 1 and len(sub_b) == 1 and len(msaves) == 2), prop='C06'))
        if len(new_b) == 1 and len(sub_b) == 1:
            nb, sb = new_b[0][3], sub_b[0][3]
            results.append(check(f'submit[{n}]: new pending batch has id+1, is Pending and due exactly one batch period after now',
                                 dom + [c, z3.Not(z3.And(nb.get(i_id).scalar() == B_ID + 1, new_b[0][2].scalar() == B_ID + 1, nb.get(i_status).disc() == PEND, nb.get(i_next).disc() == 1, nb.get(i_next).get(('as', 'Some')).get(0).scalar() == NOW + BP,
                                                                  nb.get(i_exp).disc() == 0, nb.get(i_rcv).disc() == 0))]))
            results.append(check(f'submit[{n}]: submitted batch keeps its id, becomes Submitted and is due exactly one unbonding period after now',
                                 dom + [c, z3.Not(z3.And(sb.get(i_id).scalar() == B_ID, sub_b[0][2].scalar() == B_ID, sb.get(i_status).disc() == SUBM, sb.get(i_next).disc() == 1, sb.get(i_next).get(('as', 'Some')).get(0).scalar() == NOW + UNB,
                                                                  sb.get(i_exp).disc() == 1))]))
        pend_saves = [e for e in p.effects if e[0] == 'save' and e[1] == 'u64']
        results.append(dict(name=f'submit[{n}]: pending id item saved once', result='structural', ok=len(pend_saves) == 1, prop='C06'))
        if pend_saves:
            results.append(check(f'submit[{n}]: pending id advances by one', dom + [c, pend_saves[0][2].scalar() != B_ID + 1]))
    # completeness of the time guard: on a running contract with a due deadline no path returns BatchNotReady before the request count check
    errs = [p for p in paths if outcome_kind(p) == 'err' and not any(e[0] in ('msave', 'save') for e in p.effects)]
    early = []
    for p in errs:
        # error paths that do not depend on anything but the guards (no opaque symbol in the condition)
        c = z3.And(*p.cond)
        if not mirx.mentions_opaque(c):
            early.append(c)
    if early:
        results.append(check('submit: with a running contract, an existing pending batch and now >= deadline, no guard-only error path is taken (the time guard is exactly next <= now)',
                             dom + [z3.Or(*early), STOPPED == 0, B_NEXT_D == 1, NOW >= B_NEXT, B_MISSING == 0]))
    results.append(check('submit: one second before the deadline is refused', dom + [z3.Or(*[z3.And(*p.cond) for p in oks]) if oks else z3.BoolVal(False), B_NEXT_D == 1, NOW == B_NEXT - 1]))
    results.append(check('submit: exactly at the deadline passes the guards (witness)', dom + [z3.Or(*[z3.And(*p.cond) for p in oks]) if oks else z3.BoolVal(False), B_NEXT_D == 1, NOW == B_NEXT], expect_unsat=False))
    pan = [p for p in paths if p.outcome[0] == 'panic']
    info['execute_submit_batch']['panic_sites'] = sorted(set(p.outcome[1] for p in pan))
    for site in sorted(set(p.outcome[1] for p in pan)):
        cs = [z3.And(*p.cond) for p in pan if p.outcome[1] == site]
        results.append(check(f'submit: no u64 overflow for periods < 2^40 [{site}]', dom + [z3.Or(*cs), BP < PMAX, UNB < PMAX], prop='C06'))
        results.append(check(f'C16 submit: no u64 overflow for every accepted period (u64) [{site}]', dom + [z3.Or(*cs)], prop='C16'))

    # ---------------------------------------------------------------- receive_unstaked_tokens
    f = stk.get('receive_unstaked_tokens')
    REPLAY_KIND[0] = 'receive'
    eng = engine()
    paths = eng.relation(f, [Obj('deps'), Obj('env'), Obj('info'), Obj('batch_id')])
    kinds = {}
    for p in paths:
        kinds[outcome_kind(p)] = kinds.get(outcome_kind(p), 0) + 1
    info['receive_unstaked_tokens'] = dict(paths=len(paths), kinds=kinds, opaque_calls=sorted(eng.opaque_calls)[:40], unsupported=eng.unsupported[:5])
    oks = [p for p in paths if outcome_kind(p) == 'ok']
    results.append(dict(name='receive: a successful path exists (non-vacuity)', result='structural', ok=len(oks) > 0, prop='C06'))
    SND = Obj('info').get(0).scalar()
    for n, p in enumerate(oks):
        c = z3.And(*p.cond)
        results.append(check(f'receive[{n}]: only on a running contract', dom + [c, STOPPED != 0]))
        results.append(check(f'receive[{n}]: only for a Submitted batch whose deadline has passed (next <= now)', dom + [c, z3.Not(z3.And(B_STATUS == SUBM, B_NEXT_D == 1, B_NEXT <= NOW, B_MISSING == 0))]))
        der = [nt for nt in p.notes if nt[0] == 'derive']
        results.append(dict(name=f'receive[{n}]: sender derivation is evaluated once', result='structural', ok=len(der) == 1, prop='C08'))
        if der:
            want = summ.DERIVE(der[0][1], der[0][2], der[0][3])
            r_ = check(f'receive[{n}]: sender equals derive(current channel, current staker, current prefix)', dom + [c, SND != want], prop='C08')
            r_['props'] = ['C08', 'C09']
            r_['ok'] = r_['ok'] and z3.eq(der[0][1], cfg.get(cf.index('protocol_chain_config')).get(pcf.index('ibc_channel_id')).scalar()) and z3.eq(der[0][2], cfg.get(i_native).get(ncf.index('staker_address')).scalar()) and z3.eq(der[0][3], cfg.get(cf.index('protocol_chain_config')).get(pcf.index('account_address_prefix')).scalar())
            results.append(r_)
        ms = [e for e in p.effects if e[0] == 'msave']
        results.append(dict(name=f'receive[{n}]: exactly one batch save', result='structural', ok=len(ms) == 1, prop='C06'))
        if len(ms) == 1:
            sb = ms[0][3]
            results.append(check(f'receive[{n}]: batch becomes Received with no further deadline and a recorded amount; id / expected untouched',
                                 dom + [c, z3.Not(z3.And(sb.get(i_status).disc() == RECV, sb.get(i_next).disc() == 0, sb.get(i_rcv).disc() == 1, sb.get(i_id).scalar() == B_ID, ms[0][2].scalar() == B_ID,
                                                         sb.get(i_exp).disc() == batch.get(i_exp).disc(), sb.get(i_exp).get(('as', 'Some')).get(0).scalar() == batch.get(i_exp).get(('as', 'Some')).get(0).scalar(),
                                                         sb.get(i_total).scalar() == batch.get(i_total).scalar()))]))
    okc = z3.Or(*[z3.And(*p.cond) for p in oks]) if oks else z3.BoolVal(False)
    results.append(check('receive: one second before the unbonding deadline is refused', dom + [okc, NOW == B_NEXT - 1]))
    results.append(check('receive: exactly at the unbonding deadline is possible (witness)', dom + [okc, NOW == B_NEXT], expect_unsat=False))
    pan = [p for p in paths if p.outcome[0] == 'panic']
    for site in sorted(set(p.outcome[1] for p in pan)):
        cs = [z3.And(*p.cond) for p in pan if p.outcome[1] == site]
        results.append(check(f'C16 receive: panic site unreachable [{site}]', dom + [z3.Or(*cs)], prop='C16'))

    # ---------------------------------------------------------------- batch_to_response (every batch query goes through it)
    REPLAY_KIND[0] = 'batchquery'
    f = stk.get('batch_to_response')
    if f is None:
        results.append(dict(name='batch_to_response present in the MIR dump', result='inconclusive: not found', ok=False, inconclusive=True, prop='C16'))
    else:
        eng = engine()
        b0 = Obj('pre:u64, Batch')
        try:
            paths = eng.relation(f, [b0])
            pan = [p for p in paths if p.outcome[0] == 'panic']
            info['batch_to_response'] = dict(paths=len(paths), panic=len(pan), opaque_calls=sorted(eng.opaque_calls)[:10])
            results.append(dict(name='batch_to_response: has a returning path (non-vacuity)', result='structural', ok=any(p.outcome[0] == 'return' for p in paths), prop='C16'))
            for site in sorted(set(p.outcome[1] for p in pan)):
                cs = [z3.And(*p.cond) for p in pan if p.outcome[1] == site]
                results.append(check(f'C16 queries: batch_to_response cannot panic for any stored deadline (u64) [{site}]', dom + [z3.Or(*cs)], prop='C16'))
        except mirx.Unsupported as e:
            results.append(dict(name='batch_to_response: MIR executor reaches the function', result='inconclusive: ' + str(e), ok=False, inconclusive=True, prop='C16'))
    # ---------------------------------------------------------------- instantiate (first pending batch)
    f = stk.get('instantiate')
    REPLAY_KIND[0] = 'instantiate'
    eng = engine()
    try:
        paths = eng.relation(f, [Obj('deps'), Obj('env'), Obj('info'), Obj('msg')])
        kinds = {}
        for p in paths:
            kinds[outcome_kind(p)] = kinds.get(outcome_kind(p), 0) + 1
        info['instantiate'] = dict(paths=len(paths), kinds=kinds, unsupported=eng.unsupported[:5])
        im = mirx.struct_fields(open('/repo/contracts/staking/src/msg.rs').read(), 'InstantiateMsg')
        MSG_BP = Obj('msg').get(im.index('batch_period')).scalar()
        for n, p in enumerate([p for p in paths if p.outcome[0] == 'return' and any(e[0] == 'msave' for e in p.effects)]):
            c = z3.And(*p.cond)
            ms = [e for e in p.effects if e[0] == 'msave']
            if len(ms) == 1:
                nb = ms[0][3]
                results.append(check(f'instantiate[{n}]: first pending batch has id 1 and is due one batch period after now',
                                     dom + [MSG_BP >= 0, MSG_BP < U64, c, z3.Not(z3.And(nb.get(i_id).scalar() == 1, ms[0][2].scalar() == 1, nb.get(i_status).disc() == PEND, nb.get(i_next).get(('as', 'Some')).get(0).scalar() == NOW + MSG_BP))]))
            cfgs = [e for e in p.effects if e[0] == 'save' and e[1] == 'Config']
            if cfgs:
                results.append(check(f'instantiate[{n}]: a new contract starts halted', dom + [c, cfgs[0][2].get(i_stopped).scalar() != 1], prop='C10'))
        pan = [p for p in paths if p.outcome[0] == 'panic']
        for site in sorted(set(p.outcome[1] for p in pan)):
            cs = [z3.And(*p.cond) for p in pan if p.outcome[1] == site]
            results.append(check(f'C16 instantiate: no u64 overflow for every accepted batch period [{site}]', dom + [MSG_BP >= 0, MSG_BP < U64, z3.Or(*cs)], prop='C16'))
    except mirx.Unsupported as e:
        info['instantiate'] = dict(error=str(e))
        results.append(dict(name='instantiate: MIR executor reached the function', result='inconclusive: ' + str(e), ok=False, inconclusive=True, prop='C06'))
    return dict(functions=info, results=results)


if __name__ == '__main__':
    print(json.dumps(run(), indent=1, default=str))
