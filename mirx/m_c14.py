#!/usr/bin/env python3
"""C14 (engine M): the denom validators, for every string.

`validate_denom` and `validate_ibc_denom` are executed from the staking MIR with the argument as a term of Z3's
sequence theory (a string of UTF-8 bytes). Library calls are summarised by their documented meaning:

  String::len / str::len            -> length in bytes
  str::chars().all(closure)         -> membership in  [A-Za-z]*  -- only when the closure's MIR body is a single call of
                                       char::is_ascii_alphabetic on its argument (checked structurally); on UTF-8 bytes
                                       "every char is ASCII alphabetic" and "every byte is in [A-Za-z]" coincide, because
                                       every byte of a non-ASCII char is >= 0x80
  str::starts_with(const)           -> prefix test;  str::strip_prefix(const) -> Some(rest) / None

Z3 must show, for ALL strings s (no length bound):

  validate_denom(s)     = Ok(r)  <=>  len(s) > 3  and  s in [A-Za-z]*          and then r = s  (nothing is normalised)
  validate_ibc_denom(s) = Ok(r)  <=>  s starts with "ibc/" and len(s) = 68      and then r = s

and structurally that instantiation passes the sub-denom through validate_denom and UnsafeNativeChainConfig /
UnsafeProtocolChainConfig::validate pass token_denom / ibc_token_denom through the respective validator.
Anything the executor cannot follow is reported as inconclusive, never as a violation.
"""
import sys, os, re, json, time
import z3
sys.path.insert(0, os.path.dirname(os.path.abspath(__file__)))
import mirx, summ
from mirx import Module, Engine, Obj, const_obj, bool_obj, enum_obj


class SObj(Obj):
    def __init__(s, e):
        super().__init__('s%d' % next(Obj.cnt))
        s.e = e

    def clone(s):
        return s


def sv(path, x):
    x = path.deref(x)
    if not isinstance(x, SObj):
        raise mirx.Unsupported('expected a string value, got %s' % getattr(x, 'name', x))
    return x.e


def const_lit(a):
    name = getattr(a, 'name', '')
    m = re.match(r'const:"(.*)"$', name)
    if not m:
        raise mirx.Unsupported('argument is not a string constant: %s' % name)
    return m.group(1)


ALPHA = z3.Star(z3.Union(z3.Range('a', 'z'), z3.Range('A', 'Z')))
_C = z3.Range('\x80', '\xbf')
# a Rust String is well-formed UTF-8: exactly the byte sequences of RFC 3629
_R = z3.Range
UTF8 = z3.Star(z3.Union(
    _R('\x00', '\x7f'),
    z3.Concat(_R('\xc2', '\xdf'), _C),
    z3.Concat(z3.Re('\xe0'), _R('\xa0', '\xbf'), _C), z3.Concat(_R('\xe1', '\xec'), _C, _C), z3.Concat(z3.Re('\xed'), _R('\x80', '\x9f'), _C), z3.Concat(_R('\xee', '\xef'), _C, _C),
    z3.Concat(z3.Re('\xf0'), _R('\x90', '\xbf'), _C, _C), z3.Concat(_R('\xf1', '\xf3'), _C, _C, _C), z3.Concat(z3.Re('\xf4'), _R('\x80', '\x8f'), _C, _C)))


def model_bytes_to_str(zs):
    """z3 string model -> Rust string, reading every z3 character as one byte; None when the bytes are not UTF-8."""
    txt = re.sub(r'\\u\{([0-9a-fA-F]+)\}', lambda mm: chr(int(mm.group(1), 16)), zs)
    try:
        return bytes(ord(c) for c in txt).decode('utf-8')
    except (ValueError, UnicodeDecodeError):
        return None


def run():
    T = os.environ.get('MIR_DIR', '/verif/.target')
    mod = Module(open(f'{T}/staking.mir').read())
    text = mod.text
    results, info = [], {}

    defs = []

    def s_ident(eng, path, argv, callee):
        return path.deref(argv[0])

    def s_len(eng, path, argv, callee):
        return const_obj(z3.Length(sv(path, argv[0])))

    def s_all(eng, path, argv, callee):
        # the closure must be `|c| c.is_ascii_alphabetic()`
        m = re.search(r'\{closure@([^}]*)\}', callee)
        if not m:
            raise mirx.Unsupported('Iterator::all without a closure: ' + callee)
        where = m.group(1)
        bodies = [b for b in re.findall(r'^fn [^\n]*\{closure#\d+\}\(_1: &mut \{closure@' + re.escape(where) + r'\}, _2: char\) -> bool \{.*?^\}', text, re.M | re.S)]
        if len(bodies) != 1:
            raise mirx.Unsupported('closure body not found for ' + where)
        calls = re.findall(r'= ([^\n;]*?)\((?:move|copy) _\d+\) -> \[return', bodies[0])
        if len(calls) != 1 or not calls[0].endswith('is_ascii_alphabetic') or 'switchInt' in bodies[0]:
            raise mirx.Unsupported('closure of Iterator::all is not a single is_ascii_alphabetic call: %s' % calls)
        return bool_obj(z3.InRe(sv(path, argv[0]), ALPHA))

    def s_starts_with(eng, path, argv, callee):
        return bool_obj(z3.PrefixOf(z3.StringVal(const_lit(argv[1])), sv(path, argv[0])))

    def s_strip_prefix(eng, path, argv, callee):
        s = sv(path, argv[0])
        lit = const_lit(argv[1])
        has = z3.PrefixOf(z3.StringVal(lit), s)
        # the remainder is a fresh string r with s = lit ++ r (when the prefix is present): friendlier to the sequence solver than substr
        r = z3.String('rest%d' % next(Obj.cnt))
        defs.append(z3.Implies(has, s == z3.Concat(z3.StringVal(lit), r)))   # a definition of r, asserted in every query
        rest = SObj(r)
        o = enum_obj(z3.If(has, z3.IntVal(1), z3.IntVal(0)), 'Some', None)
        pay = Obj('p%d' % next(Obj.cnt))
        pay.fields[0] = rest
        o.fields[('as', 'Some')] = pay
        return o

    def s_unwrap(eng, path, argv, callee):
        o = path.deref(argv[0])
        d = o.disc()
        bad = d != 1
        if eng.feasible(path.cond + [bad]):
            p2 = path.fork()
            p2.cond.append(bad)
            p2.outcome = ('panic', 'called `Option::unwrap()` on a `None` value')
            eng.done.append(p2)
        path.cond.append(z3.Not(bad))
        return o.get(('as', 'Some')).get(0)

    DIG = z3.Range('0', '9')
    U64_SUP = z3.Concat(z3.Option(z3.Re('+')), z3.Plus(DIG))                      # everything u64::from_str can accept
    U64_SUB = z3.Concat(z3.Option(z3.Re('+')), z3.Star(z3.Re('0')), z3.Loop(DIG, 1, 19))  # certainly below 2^64
    parses = z3.Function('parses_as_u64', z3.StringSort(), z3.BoolSort())
    parse_axioms = []

    def s_parse_u64(eng, path, argv, callee):
        # u64::from_str (documented): optional '+', then one or more ASCII digits, value <= u64::MAX
        e = sv(path, argv[0])
        parse_axioms.append(z3.Implies(parses(e), z3.InRe(e, U64_SUP)))
        parse_axioms.append(z3.Implies(z3.InRe(e, U64_SUB), parses(e)))
        return enum_obj(z3.If(parses(e), z3.IntVal(0), z3.IntVal(1)))

    def s_opaque_result(eng, path, argv, callee):
        # a fallible library / repository check the query does not look into: either outcome
        d = z3.Int('res%d#d' % next(Obj.cnt))
        path.cond.append(z3.Or(d == 0, d == 1))
        o = enum_obj(d)
        pay = Obj('p%d' % next(Obj.cnt))
        pay.fields[0] = Obj('okv%d' % next(Obj.cnt))
        o.fields[('as', 'Ok')] = pay
        o.fields[('as', 'Err')] = Obj('errv%d' % next(Obj.cnt))
        return o

    def strval(path, x):
        x = path.deref(x)
        if isinstance(x, SObj):
            return x.e
        m = re.match(r'const:"(.*)"$', getattr(x, 'name', ''))
        if m:
            return z3.StringVal(m.group(1))
        raise mirx.Unsupported('expected a string value, got %s' % getattr(x, 'name', x))

    CONT = z3.Range('\x80', '\xbf')

    def s_index_range(eng, path, argv, callee):
        # str slicing by byte offsets: panics when an offset is beyond the end or not on a char boundary
        # (in a UTF-8 byte string: the byte at the offset is a continuation byte 0x80..0xBF)
        e = strval(path, argv[0])
        rng = path.deref(argv[1])
        n = z3.Length(e)

        def off_bad(o):
            return z3.Or(o > n, z3.And(o < n, z3.InRe(z3.SubString(e, o, 1), CONT)))
        if 'RangeTo<' in callee:
            lo, hi = z3.IntVal(0), rng.get(0).scalar()
            bad = off_bad(hi)
        elif 'RangeFrom<' in callee:
            lo, hi = rng.get(0).scalar(), n
            bad = off_bad(lo)
        else:
            lo, hi = rng.get(0).scalar(), rng.get(1).scalar()
            bad = z3.Or(lo > hi, off_bad(lo), off_bad(hi))
        if eng.feasible(path.cond + [bad]):
            p2 = path.fork()
            p2.cond.append(bad)
            p2.outcome = ('panic', 'byte index is out of bounds or not a char boundary')
            eng.done.append(p2)
        path.cond.append(z3.Not(bad))
        return SObj(z3.SubString(e, lo, hi - lo))

    def s_str_eq(eng, path, argv, callee):
        return bool_obj(strval(path, argv[0]) == strval(path, argv[1]))

    def s_str_ne(eng, path, argv, callee):
        return bool_obj(strval(path, argv[0]) != strval(path, argv[1]))

    def s_generic_err(eng, path, argv, callee):
        return Obj('stderr%d' % next(Obj.cnt))

    SUMM = [
        (r'as Into<std::string::String>>::into$|as Into<String>>::into$|<std::string::String as Deref>::deref$|<String as Deref>::deref$|<str as ToString>::to_string$|as Clone>::clone$|String::as_str$', s_ident),
        (r'String::len$|<impl str>::len$', s_len),
        (r'<impl str>::chars$', s_ident),
        (r'as Iterator>::all::<', s_all),
        (r'<impl str>::starts_with::<&str>$', s_starts_with),
        (r'<impl str>::strip_prefix::<&str>$', s_strip_prefix),
        (r'Option::<&str>::unwrap$', s_unwrap),
        (r'StdError::generic_err::<', s_generic_err),
        (r'as std::ops::Index<Range(To|From)?<usize>>>::index$|as Index<Range(To|From)?<usize>>>::index$', s_index_range),
        (r'<&str as PartialEq>::eq$|<str as PartialEq>::eq$|<std::string::String as PartialEq<&str>>::eq$|<std::string::String as PartialEq<str>>::eq$|<std::string::String as PartialEq>::eq$', s_str_eq),
        (r'<&str as PartialEq>::ne$|<str as PartialEq>::ne$|<std::string::String as PartialEq<&str>>::ne$|<std::string::String as PartialEq<str>>::ne$', s_str_ne),
        (r'<impl str>::parse::<u64>$', s_parse_u64),
        (r'^validate_address_prefix$|helpers::validate_address_prefix$', s_opaque_result),
        (r'Option::<.*>::transpose$', s_opaque_result),
    ]

    def relation(fname):
        s = z3.String('s')
        eng = Engine([mod], SUMM + summ.BASE)
        f = mod.get(fname)
        if f is None:
            raise mirx.Unsupported('function not found: ' + fname)
        paths = eng.relation(f, [SObj(s)])
        return s, eng, paths

    def decide(fname, spec_of, label):
        try:
            s, eng, paths = relation(fname)
        except mirx.Unsupported as e:
            results.append(dict(name=f'MIR executor reaches {fname}', result='inconclusive: ' + str(e), ok=False, inconclusive=True, prop='C14'))
            return
        info[fname] = dict(paths=len(paths), opaque_calls=sorted(eng.opaque_calls), unsupported=eng.unsupported[:5])
        if eng.opaque_calls or eng.unsupported:
            results.append(dict(name=f'{fname}: every call on the path is summarised', result='inconclusive: opaque calls %s %s' % (sorted(eng.opaque_calls)[:4], eng.unsupported[:2]), ok=False, inconclusive=True, prop='C14'))
            return
        pan = [p for p in paths if p.outcome[0] == 'panic']
        ok_conds, err_conds, same = [], [], []
        for p in paths:
            c = z3.And(*p.cond) if p.cond else z3.BoolVal(True)
            if p.outcome[0] != 'return':
                continue
            rv = p.outcome[1]
            d = z3.simplify(rv.disc())
            if not z3.is_int_value(d):
                results.append(dict(name=f'{fname}: result variant is decided on every path', result='inconclusive', ok=False, inconclusive=True, prop='C14'))
                return
            if d.as_long() == 0:
                got = rv.get(('as', 'Ok')).get(0)
                if not isinstance(got, SObj):
                    results.append(dict(name=f'{fname}: the returned string is a term', result='inconclusive: result flows through an opaque value', ok=False, inconclusive=True, prop='C14'))
                    return
                ok_conds.append(c)
                same.append(z3.Implies(c, got.e == s))
            else:
                err_conds.append(c)
        spec = spec_of(s)
        accepted = z3.Or(*ok_conds) if ok_conds else z3.BoolVal(False)
        queries = [
            (f'{fname}: accepted exactly when {label}, for every string', accepted != spec),
            (f'{fname}: the accepted string is returned unchanged (nothing is trimmed or normalised), for every string', z3.Not(z3.And(*same)) if same else z3.BoolVal(False)),
            (f'{fname}: never panics, for every string', z3.Or(*[z3.And(*p.cond) if p.cond else z3.BoolVal(True) for p in pan]) if pan else z3.BoolVal(False)),
        ]
        for name, neg in queries:
            sol = z3.Solver()
            sol.set('timeout', 60000)
            sol.add(*defs)
            sol.add(z3.InRe(s, UTF8))
            sol.add(neg)
            t0 = time.time()
            r = sol.check()
            res = dict(name=name, result=str(r), ok=(r == z3.unsat), time_s=round(time.time() - t0, 3), prop='C14', props=['C14', 'C16'] if 'never panics' in name else ['C14'])
            if r == z3.sat:
                m = sol.model()
                v = m.eval(s, model_completion=True)
                txt = model_bytes_to_str(v.as_string())
                res['model'] = {'s': txt if txt is not None else v.as_string(), 'fn': fname}
                if txt is not None:
                    res['replay'] = dict(kind='denom', model={'s': txt, 'fn': fname})
            if r == z3.unknown:
                res['inconclusive'] = True
            results.append(res)

    decide('validate_denom', lambda s: z3.And(z3.Length(s) > 3, z3.InRe(s, ALPHA)), 'len > 3 and all bytes in [A-Za-z]')
    decide('validate_ibc_denom', lambda s: z3.And(z3.PrefixOf(z3.StringVal('ibc/'), s), z3.Length(s) == 68), 'it starts with ibc/ and is 68 bytes long')

    # ---- validate_address: accepted exactly when bech32::decode succeeds AND the decoded prefix equals the section's prefix ----
    # bech32::decode is an uninterpreted pair (dec_ok: String -> Bool, hrp: String -> String): the library's insides are not claimed
    # (DESIGN section 7); what is decided, for every address and prefix string, is how the repository USES the decoder's verdict.
    try:
        dec_ok = z3.Function('bech32_decodes', z3.StringSort(), z3.BoolSort())
        hrp = z3.Function('bech32_hrp', z3.StringSort(), z3.StringSort())

        def s_bech32_decode(eng, path, argv, callee):
            e = strval(path, argv[0])
            o = enum_obj(z3.If(dec_ok(e), z3.IntVal(0), z3.IntVal(1)))
            pay = Obj('p%d' % next(Obj.cnt))
            tup = Obj('t%d' % next(Obj.cnt))
            tup.fields[0] = SObj(hrp(e))
            pay.fields[0] = tup
            o.fields[('as', 'Ok')] = pay
            o.fields[('as', 'Err')] = Obj('errv%d' % next(Obj.cnt))
            return o

        def s_addr_unchecked(eng, path, argv, callee):
            return SObj(strval(path, argv[0]))

        a, pfx = z3.String('address'), z3.String('prefix')
        eng = Engine([mod], [(r'^bech32::decode$', s_bech32_decode), (r'^Addr::unchecked::<&str>$|Addr::unchecked::<', s_addr_unchecked)] + SUMM + summ.BASE)
        f = mod.get('validate_address')
        if f is None:
            raise mirx.Unsupported('function not found: validate_address')
        paths = eng.relation(f, [SObj(a), SObj(pfx)])
        info['validate_address'] = dict(paths=len(paths), opaque_calls=sorted(eng.opaque_calls), unsupported=eng.unsupported[:5])
        if eng.opaque_calls or eng.unsupported:
            results.append(dict(name='validate_address: every call on the path is summarised', result='inconclusive: opaque calls %s %s' % (sorted(eng.opaque_calls)[:4], eng.unsupported[:2]), ok=False, inconclusive=True, prop='C14'))
        else:
            oks, same, pan, undec = [], [], [], 0
            for p in paths:
                c = z3.And(*p.cond) if p.cond else z3.BoolVal(True)
                if p.outcome[0] == 'panic':
                    pan.append(c)
                    continue
                if p.outcome[0] != 'return':
                    continue
                d = z3.simplify(p.outcome[1].disc())
                if not z3.is_int_value(d):
                    undec += 1
                elif d.as_long() == 0:
                    got = p.outcome[1].get(('as', 'Ok')).get(0)
                    if not isinstance(got, SObj):
                        undec += 1
                        continue
                    oks.append(c)
                    same.append(z3.Implies(c, got.e == a))
            if undec or not oks:
                results.append(dict(name='validate_address: the result variant and the returned address are decided on every path, some path returns Ok', result='inconclusive', ok=False, inconclusive=True, prop='C14'))
            else:
                acc = z3.Or(*oks)
                for name, neg in [
                    ('validate_address: accepted exactly when the bech32 decoder accepts the string AND the decoded human-readable part equals the required prefix, for every address and prefix', acc != z3.And(dec_ok(a), hrp(a) == pfx)),
                    ('validate_address: the accepted address is returned verbatim, for every address and prefix', z3.Not(z3.And(*same))),
                    ('validate_address: never panics, for every address and prefix', z3.Or(*pan) if pan else z3.BoolVal(False)),
                ]:
                    sol = z3.Solver()
                    sol.set('timeout', 60000)
                    sol.add(*defs)
                    sol.add(z3.InRe(a, UTF8), z3.InRe(pfx, UTF8))
                    sol.add(neg)
                    t0 = time.time()
                    r = sol.check()
                    res = dict(name=name, result=str(r), ok=(r == z3.unsat), time_s=round(time.time() - t0, 3), prop='C14', props=['C14', 'C16'] if 'never panics' in name else ['C14'])
                    if r != z3.unsat:
                        # the decoder is uninterpreted, so a model has no byte-exact replay: engine S's longer-prefix / swapped-prefix matrix gives the verdict
                        res['inconclusive'] = True
                        if r == z3.sat:
                            res['model'] = str(sol.model())[:300]
                    results.append(res)
    except (mirx.Unsupported, AssertionError, ValueError, KeyError, AttributeError) as e:
        results.append(dict(name='MIR executor reaches validate_address', result='inconclusive: ' + str(e)[:200], ok=False, inconclusive=True, prop='C14'))

    # ---- UnsafeProtocolChainConfig::validate: channel and staked-asset denom, for every string ----
    try:
        vname = None
        for mm in re.finditer(r'^fn ([^\n]*?::validate)\(_1: &UnsafeProtocolChainConfig\)', text, re.M):
            vname = mm.group(1)
        if vname is None:
            raise mirx.Unsupported('UnsafeProtocolChainConfig::validate not found')
        src_types = open('/repo/contracts/staking/src/types.rs').read()
        src_state = open('/repo/contracts/staking/src/state.rs').read()
        uf = mirx.struct_fields(src_types, 'UnsafeProtocolChainConfig')
        pf = mirx.struct_fields(src_state, 'ProtocolChainConfig')
        ch, dn = z3.String('channel'), z3.String('denom')
        me = Obj('self')
        me.fields[uf.index('ibc_channel_id')] = SObj(ch)
        me.fields[uf.index('ibc_token_denom')] = SObj(dn)
        eng = Engine([mod], SUMM + summ.BASE, inline=[r'^validate_ibc_denom(::<.*>)?$'])
        paths = eng.relation(mod.get(vname), [me])
        oks = []
        undecided = 0
        for p in paths:
            if p.outcome[0] != 'return':
                continue
            d = z3.simplify(p.outcome[1].disc())
            if not z3.is_int_value(d):
                undecided += 1
            elif d.as_long() == 0:
                oks.append(p)
        info['UnsafeProtocolChainConfig::validate'] = dict(paths=len(paths), ok_paths=len(oks), opaque_calls=sorted(eng.opaque_calls)[:8])
        results.append(dict(name='protocol section validate: the result variant is decided on every path and some path returns Ok (non-vacuity)', result='structural', ok=undecided == 0 and len(oks) > 0, prop='C14', props=['C14', 'C09']))
        CH_RE = z3.Concat(z3.Re('channel-'), U64_SUP)
        bad_ch, bad_keep, bad_dn, shape = [], [], [], True
        for p in oks:
            c = z3.And(*p.cond) if p.cond else z3.BoolVal(True)
            out = p.outcome[1].get(('as', 'Ok')).get(0)
            sc, sd = out.get(pf.index('ibc_channel_id')), out.get(pf.index('ibc_token_denom'))
            if not isinstance(sc, SObj) or not isinstance(sd, SObj):
                shape = False
                continue
            bad_ch.append(z3.And(c, z3.Not(z3.InRe(ch, CH_RE))))
            bad_keep.append(z3.And(c, z3.Or(sc.e != ch, sd.e != dn)))
            bad_dn.append(z3.And(c, z3.Not(z3.And(z3.PrefixOf(z3.StringVal('ibc/'), dn), z3.Length(dn) == 68))))
        results.append(dict(name='protocol section validate: the stored channel and denom are string terms of the inputs', result='structural' if shape else 'inconclusive: stored value flows through an opaque call', ok=shape, inconclusive=not shape, prop='C14', props=['C14', 'C09']))
        # accepted channels include every channel-<up to 19 digits>
        acc = z3.Or(*[z3.And(*p.cond) if p.cond else z3.BoolVal(True) for p in oks]) if oks else z3.BoolVal(False)
        rej_ch = z3.Or(*[z3.And(*(p.cond or [z3.BoolVal(True)])) for p in paths if p.outcome[0] == 'return' and z3.is_int_value(z3.simplify(p.outcome[1].disc())) and z3.simplify(p.outcome[1].disc()).as_long() == 1 and not any('res' in str(x) for x in p.cond)])
        for name, neg, props in [
            ('protocol section validate: an accepted channel is `channel-` + optional `+` + decimal digits, for every string (premise of the C09 unambiguity lemma)', z3.Or(*bad_ch) if bad_ch else z3.BoolVal(False), ['C14', 'C09']),
            ('protocol section validate: channel and staked-asset denom are stored verbatim, for every string', z3.Or(*bad_keep) if bad_keep else z3.BoolVal(False), ['C14', 'C09']),
            ('protocol section validate: an accepted staked-asset denom is ibc/ + 64 bytes, for every string', z3.Or(*bad_dn) if bad_dn else z3.BoolVal(False), ['C14']),
            ('protocol section validate: no `channel-<1..19 digits>` identifier is refused for its channel (witness search)', z3.And(z3.InRe(ch, z3.Concat(z3.Re('channel-'), U64_SUB)), rej_ch), ['C14']),
        ]:
            sol = z3.Solver()
            sol.set('timeout', 60000)
            sol.add(*parse_axioms)
            sol.add(*defs)
            sol.add(z3.InRe(ch, UTF8), z3.InRe(dn, UTF8))
            sol.add(neg)
            t0 = time.time()
            r = sol.check()
            res = dict(name=name, result=str(r), ok=(r == z3.unsat), time_s=round(time.time() - t0, 3), prop='C14', props=props)
            if r == z3.sat:
                m = sol.model()
                mc, md = model_bytes_to_str(m.eval(ch, model_completion=True).as_string()), model_bytes_to_str(m.eval(dn, model_completion=True).as_string())
                res['model'] = {'channel': mc, 'denom': md}
                if mc is not None and md is not None:
                    res['replay'] = dict(kind='protocfg', model=res['model'])
            if r == z3.unknown:
                res['inconclusive'] = True
            results.append(res)
    except (mirx.Unsupported, AssertionError, ValueError) as e:
        results.append(dict(name='MIR executor reaches UnsafeProtocolChainConfig::validate', result='inconclusive: ' + str(e)[:200], ok=False, inconclusive=True, prop='C14', props=['C14', 'C09']))

    # structural: the validators are on the path of every configuration entry point
    def body_of(pattern):
        out = []
        for mm in re.finditer(r'^fn ([^\n]*?)\(([^\n]*)\) -> [^\n]* \{$', text, re.M):
            if re.search(pattern, mm.group(1) + '(' + mm.group(2) + ')'):
                out.append(text[mm.start(): text.find('\n}\n', mm.start())])
        return out

    inst = body_of(r'^instantiate\(')
    results.append(dict(name='instantiate passes the LST sub-denom through validate_denom (structural)', result='structural', ok=any('validate_denom' in b and 'liquid_stake_token_denom' in b for b in inst), prop='C14'))
    nat = body_of(r'::validate\(_1: &UnsafeNativeChainConfig\)')
    results.append(dict(name='the native section passes token_denom through validate_denom (structural)', result='structural', ok=any('validate_denom' in b for b in nat), prop='C14'))
    pro = body_of(r'::validate\(_1: &UnsafeProtocolChainConfig\)')
    results.append(dict(name='the protocol section passes ibc_token_denom through validate_ibc_denom (structural)', result='structural', ok=any('validate_ibc_denom' in b for b in pro), prop='C14'))
    return dict(functions=info, results=results)


if __name__ == '__main__':
    print(json.dumps(run(), indent=1, default=str))
