#!/usr/bin/env python3
"""C13 (engine M): authorization and frame of the treasury handlers, for every state and message.

The treasury handlers are executed from the treasury MIR with free arguments; `ADMIN.assert_admin`, `Item::load/save`
and `addr_validate` are summarised as in the staking queries; `Config::assert_trader` is inlined (its body compares
the stored trader with the sender); `Config::assert_allowed_swap_route` is an uninterpreted predicate of (stored
allow-list, requested route) -- its meaning (membership of the whole route) is decided by engine S's route matrices.
Z3 must show:

  * spend_funds, update_config, transfer_ownership, revoke: every path that can return Ok requires sender = admin;
  * swap_exact_amount_in / _out: every path that can return Ok requires sender = stored trader AND passed the
    allow-list predicate evaluated on the *stored* allow-list and the *requested* route; neither writes storage;
  * spend_funds writes no storage;
  * update_config: every Ok path saves the configuration exactly once; the saved trader is the validated supplied one
    when supplied and the loaded one otherwise; the saved allow-list is the supplied one when supplied and the loaded
    one otherwise (all four supplied/absent shapes, whatever the values).
"""
import sys, os, re, json, time
import z3
sys.path.insert(0, os.path.dirname(os.path.abspath(__file__)))
import mirx, summ
from mirx import Module, Engine, Obj, enum_obj, const_obj
from m_guards import check, same_tree


def run():
    T = os.environ.get('MIR_DIR', '/verif/.target')
    tre = Module(open(f'{T}/treasury.mir').read())
    mw = Module(open(f'{T}/milky_way.mir').read())
    src_state = open('/repo/contracts/treasury/src/state.rs').read()
    cf = mirx.struct_fields(src_state, 'Config')
    cfg = Obj('pre:Config')
    ADMIN = summ.ADMIN
    results, info = [], {}
    allowed = z3.Function('allowed_route', z3.IntSort(), z3.IntSort(), z3.IntSort())

    def s_allowed(eng, path, argv, callee):
        c = path.deref(argv[0])
        routes = c.get(cf.index('allowed_swap_routes')).scalar()
        req = path.deref(argv[1]).scalar()
        r = allowed(routes, req)
        path.cond.append(z3.Or(r == 0, r == 1))
        path.notes.append(('allowed', routes, req))
        return enum_obj(z3.If(r == 1, z3.IntVal(0), z3.IntVal(1)), 'Ok', Obj('unit'))

    SUMM = [(r'Config::assert_allowed_swap_route$', s_allowed)] + summ.BASE

    def relation(fn, names):
        f = tre.get(fn)
        assert f is not None, fn
        eng = Engine([tre, mw], SUMM, inline=[r'Config::assert_trader$'], maxpaths=4000)
        args = [Obj(n) for n in names[:f.nargs]]
        paths = eng.relation(f, args)
        oks, kinds = [], {}
        for p in paths:
            k = p.outcome[0]
            if k == 'return':
                d = z3.simplify(p.outcome[1].disc())
                k = ('ok' if d.as_long() == 0 else 'err') if z3.is_int_value(d) else 'sym'
            kinds[k] = kinds.get(k, 0) + 1
            if k in ('ok', 'sym'):
                oks.append(p)
        info[fn] = dict(paths=len(paths), kinds=kinds, opaque_calls=sorted(eng.opaque_calls)[:12])
        return oks, paths

    def guarded(fn, names, prop='C13'):
        try:
            return relation(fn, names)
        except (mirx.Unsupported, AssertionError) as e:
            results.append(dict(name=f'{fn}: MIR executor reaches the handler', result='inconclusive: ' + str(e)[:200], ok=False, inconclusive=True, prop=prop))
            return None, None

    # ---- admin guard ----
    for fn, names in [('execute_spend_funds', ['deps', 'env', 'info', 'amount', 'receiver', 'channel']), ('execute_update_config', ['deps', 'info', 'trader', 'routes']),
                      ('execute_transfer_ownership', ['deps', 'env', 'info', 'new_owner']), ('execute_revoke_ownership_transfer', ['deps', 'env', 'info'])]:
        oks, _ = guarded(fn, names)
        if oks is None:
            continue
        SND = Obj('info').get(0).scalar()
        results.append(dict(name=f'treasury {fn}: has a path that can return Ok (non-vacuity)', result='structural', ok=len(oks) > 0, prop='C13'))
        if oks:
            results.append(check(f'treasury {fn}: every path that can return Ok requires sender = current admin, for every state', [z3.Or(*[z3.And(*p.cond) for p in oks]), SND != ADMIN], 'C13'))
        if fn == 'execute_spend_funds':
            results.append(dict(name='treasury execute_spend_funds: no path writes storage', result='structural', ok=all(not p.effects for p in oks), prop='C13'))
    # ---- trader guard and allow-list ----
    TRADER = cfg.get(cf.index('trader')).scalar()
    ROUTES = cfg.get(cf.index('allowed_swap_routes')).scalar()
    for fn in ['execute_swap_exact_amount_in', 'execute_swap_exact_amount_out']:
        oks, _ = guarded(fn, ['deps', 'env', 'info', 'routes', 'coin', 'limit'])
        if oks is None:
            continue
        SND = Obj('info').get(0).scalar()
        REQ = Obj('routes').scalar()
        results.append(dict(name=f'treasury {fn}: has a path that can return Ok (non-vacuity)', result='structural', ok=len(oks) > 0, prop='C13'))
        if oks:
            results.append(check(f'treasury {fn}: every path that can return Ok requires sender = stored trader, for every state', [z3.Or(*[z3.And(*p.cond) for p in oks]), SND != TRADER], 'C13'))
            results.append(check(f'treasury {fn}: every path that can return Ok passed the allow-list test of the stored list on the requested route', [z3.Or(*[z3.And(*p.cond) for p in oks]), allowed(ROUTES, REQ) != 1], 'C13'))
            results.append(dict(name=f'treasury {fn}: the allow-list test is evaluated exactly once, on (stored list, requested route)', result='structural',
                                ok=all(len([n for n in p.notes if n[0] == 'allowed']) == 1 and all(z3.eq(n[1], ROUTES) and z3.eq(n[2], REQ) for n in p.notes if n[0] == 'allowed') for p in oks), prop='C13'))
            results.append(dict(name=f'treasury {fn}: no path writes storage', result='structural', ok=all(not p.effects for p in oks), prop='C13'))
    # ---- update_config frame ----
    oks, _ = guarded('execute_update_config', ['deps', 'info', 'trader', 'routes'])
    if oks:
        shape_bad = 0
        bad_tr, bad_rt = [], []
        TR_D, RT_D = Obj('trader').disc(), Obj('routes').disc()
        dom = [z3.Or(TR_D == 0, TR_D == 1), z3.Or(RT_D == 0, RT_D == 1)]
        it, ir = cf.index('trader'), cf.index('allowed_swap_routes')
        for p in oks:
            saves = [e for e in p.effects if e[0] == 'save']
            if len(saves) != 1 or saves[0][1] != 'Config' or any(e[0] in ('msave', 'admin_set') for e in p.effects):
                shape_bad += 1
                continue
            new = saves[0][2]
            c = z3.And(*p.cond)
            sup_tr = Obj('trader').get(('as', 'Some')).get(0).scalar()
            sup_rt = Obj('routes').get(('as', 'Some')).get(0).scalar()
            want_tr = z3.If(TR_D == 1, sup_tr, cfg.get(it).scalar())
            want_rt = z3.If(RT_D == 1, sup_rt, cfg.get(ir).scalar())
            bad_tr.append(z3.And(c, new.get(it).scalar() != want_tr))
            bad_rt.append(z3.And(c, new.get(ir).scalar() != want_rt))
        results.append(dict(name='treasury execute_update_config: every Ok path saves the configuration exactly once and nothing else', result='structural', ok=shape_bad == 0, prop='C13'))
        if bad_tr:
            results.append(check('treasury execute_update_config: the saved trader is the supplied one when supplied, else the loaded one (all shapes, all values)', dom + [z3.Or(*bad_tr)], 'C13'))
            results.append(check('treasury execute_update_config: the saved allow-list is the supplied one when supplied, else the loaded one (all shapes, all values)', dom + [z3.Or(*bad_rt)], 'C13'))
    # ---- the allow-list test itself: shape of its body (its meaning on concrete routes is engine S's matrix) ----
    text = tre.text

    def body(header_re):
        m = re.search(header_re, text, re.M)
        if not m:
            return None
        return text[m.start(): text.find('\n}\n', m.start())]

    fn_b = body(r'^fn [^\n]*::assert_allowed_swap_route\(_1: &state::Config, _2: &\[SwapRoute\]\)')
    cl_b = body(r'^fn [^\n]*::assert_allowed_swap_route::\{closure#0\}\(')
    eq_b = body(r'^fn [^\n]*::eq\(_1: &SwapRoute, _2: &SwapRoute\)')

    def calls(b):
        return re.findall(r'= ([^\n;]*?)\((?:[^\n]*)\) -> \[return', b or '')
    ok_fn = fn_b is not None and any('is_empty' in c for c in calls(fn_b)) and any('Iterator>::any' in c for c in calls(fn_b)) and not any(re.search(r'format|join|to_string|concat', c) for c in calls(fn_b))
    ok_cl = cl_b is not None and [c for c in calls(cl_b)] == ['<std::vec::Vec<SwapRoute> as PartialEq<[SwapRoute]>>::eq'] and 'switchInt' not in cl_b
    ok_eq = eq_b is not None and re.search(r'Eq\(', eq_b) is not None and len(re.findall(r'<std::string::String as PartialEq>::eq', eq_b)) == 2 and '(*_1).0' in eq_b and '(*_1).1' in eq_b and '(*_1).2' in eq_b
    results.append(dict(name='treasury assert_allowed_swap_route: emptiness test, then any(|allowed| allowed == route) with the slice equality of Vec<SwapRoute> (structural)', result='structural', ok=bool(ok_fn and ok_cl), prop='C13'))
    results.append(dict(name='treasury SwapRoute equality compares pool id, input denom and output denom (derived PartialEq, structural)', result='structural', ok=bool(ok_eq), prop='C13'))
    return dict(crate='treasury', functions=info, results=results)


if __name__ == '__main__':
    print(json.dumps(run(), indent=1, default=str))
