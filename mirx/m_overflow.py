#!/usr/bin/env python3
"""C16 (engine M): generic scan for primitive-integer panics. Every function body of the staking and treasury
crates that the executor can run (closures, derive output and test code excluded) is executed with free
arguments and opaque library calls; every `assert(!overflow)` / division assert that the compiler emitted is a
panic site; Z3 decides whether the site is reachable for u64 values with block time < 2^33 s and IBC sequence
numbers / batch ids < 2^40. Sites listed in EXPECTED_UNREACHABLE_WITH must be unsat under the stated extra facts.
"""
import sys, os, re, json, time
import z3
sys.path.insert(0, os.path.dirname(os.path.abspath(__file__)))
import mirx, summ
from mirx import Module, Engine, Obj, const_obj

TMAX = 2 ** 33
U64 = 2 ** 64
ARITH = ('attempt to compute', 'attempt to add', 'attempt to subtract', 'attempt to multiply', 'attempt to divide', 'attempt to calculate the remainder', 'attempt to negate', 'attempt to shift')


def s_nanos(eng, path, argv, callee):
    # Timestamp abstracted to whole seconds s: nanos = s * 10^9 + frac, 0 <= frac < 10^9
    v = path.deref(argv[0]).scalar()
    frac = z3.Int('frac%d' % next(Obj.cnt))
    path.cond.append(z3.And(frac >= 0, frac < 10 ** 9, v <= summ.MAX_TS_SECONDS))
    return const_obj(v * 10 ** 9 + frac)


CURATED = {
    'staking': ['instantiate', 'execute', 'query', 'sudo', 'reply', 'migrate', 'ibc_transfer_msg', 'ibc_transfer_sub_msg', 'update_oracle_msgs', 'check_stopped', 'execute_liquid_stake', 'execute_liquid_unstake',
                'execute_submit_batch', 'execute_withdraw', 'execute_add_validator', 'execute_remove_validator', 'execute_transfer_ownership', 'execute_revoke_ownership_transfer', 'execute_accept_ownership',
                'update_config', 'receive_rewards', 'receive_unstaked_tokens', 'circuit_breaker', 'resume_contract', 'handle_ibc_reply', 'save_ibc_waiting_for_reply', 'fee_withdraw', 'receive_ack', 'receive_timeout',
                'query_config', 'query_state', 'batch_to_response', 'query_batch', 'query_batches', 'query_batches_by_ids', 'query_pending_batch', 'query_ibc_queue', 'query_reply_queue', 'query_unstake_requests',
                'compute_mint_amount', 'compute_unbond_amount', 'get_rates', 'checked_deadline', 'derive_intermediate_sender', 'addess_hash', 'validate_denom', 'validate_ibc_denom', 'new_unstake_request', 'remove_unstake_request'],
    'treasury': ['instantiate', 'execute', 'query', 'migrate', 'execute_transfer_ownership', 'execute_revoke_ownership_transfer', 'execute_accept_ownership', 'execute_spend_funds', 'execute_swap_exact_amount_in',
                 'execute_swap_exact_amount_out', 'execute_update_config', 'query_config'],
}


# Sites that stay satisfiable for the abstract executor but are unreachable under a stated fact the executor does not see.
# (crate, function, operator) -> (number of such sites, fact). A further site of the same kind in the same function is reported.
EXPECTED = {
    ('staking', 'execute_liquid_stake', '-'): (1, 'info.sender is an address under the configured protocol prefix (C16: accounts the protocol chain can produce), so sender.len() >= prefix.len() + 39'),
}


def s_from_nanos(eng, path, argv, callee):
    return const_obj(path.deref(argv[0]).scalar() / 10 ** 9)


def functions_of(mod, crate):
    return [n for n in CURATED[crate] if mod.get(n) is not None]


def run():
    T = os.environ.get('MIR_DIR', '/verif/.target')
    results, info = [], {}
    for crate in ('staking', 'treasury'):
        mod = Module(open(f'{T}/{crate}.mir').read())
        mw = Module(open(f'{T}/milky_way.mir').read())
        scanned = skipped = sites_total = 0
        seen_expected = {}
        for fn in functions_of(mod, crate):
            f = mod.get(fn)
            if not f.blocks:
                continue
            eng = Engine([mod, mw], [(r'Timestamp::nanos$', s_nanos), (r'Timestamp::from_nanos$', s_from_nanos)] + summ.BASE, inline=[r'Batch::new$', r'checked_deadline$', r'ibc_transfer_sub_msg(::<.*>)?$', r'ibc_transfer_msg(::<.*>)?$', r'save_ibc_waiting_for_reply$'], maxpaths=1500)
            try:
                paths = eng.relation(f, [Obj('arg%d' % i) for i in range(f.nargs)])
            except (mirx.Unsupported, AssertionError, RecursionError, KeyError, IndexError, Exception) as e:
                skipped += 1
                info.setdefault('skipped', []).append(f'{crate}::{fn}: {str(e)[:60]}')
                continue
            scanned += 1
            pan = [p for p in paths if p.outcome[0] == 'panic' and any(a in p.outcome[1] for a in ARITH)]
            for site in sorted(set(p.outcome[1] for p in pan)):
                sites_total += 1
                cs = [z3.And(*p.cond) for p in pan if p.outcome[1] == site]
                # domain: every free integer symbol is a u64; block time (env argument .0.1) below 2^33 s
                syms = set()
                for c in cs:
                    syms |= mirx.free_symbols(c)
                dom = []
                for n in syms:
                    if n.endswith('#d') or n.startswith('opq') or n.startswith('frac'):
                        continue
                    v = z3.Int(n)
                    dom += [v >= 0, v < U64]
                    if re.search(r'^arg1\.0\.1$|^env\.0\.1$', n):
                        dom.append(v < TMAX)            # block time below 2^33 s
                    if re.search(r'Batch\.0$|^pre:u64$|sequence|\.id$', n):
                        dom.append(v < 2 ** 40)         # batch ids / IBC sequence numbers below 2^40
                    if re.search(r'^arg1\.1\.Some\.0\.0$', n):
                        dom.append(v < 2 ** 32)         # TransactionInfo.index is a u32
                s = z3.Solver()
                s.set('timeout', 20000)
                s.add(*dom)
                s.add(z3.Or(*cs))
                t0 = time.time()
                r = s.check()
                opm = re.search(r"`\{\} (.) \{\}`", site)
                key = (crate, fn, opm.group(1) if opm else '?')
                if r == z3.sat and key in EXPECTED and seen_expected.get(key, 0) < EXPECTED[key][0]:
                    seen_expected[key] = seen_expected.get(key, 0) + 1
                    results.append(dict(name=f'{crate}::{fn}: site `{key[2]}` unreachable under the stated fact: {EXPECTED[key][1]}', result='assumed', ok=True, prop='C16'))
                    continue
                res = dict(name=f'{crate}::{fn}: arithmetic panic site unreachable for u64 inputs, block time < 2^33 s [{site.split(": ", 1)[-1][:60]}]', result=str(r), ok=(r == z3.unsat), time_s=round(time.time() - t0, 3), prop='C16')
                if r == z3.sat:
                    m = s.model()
                    res['model'] = {str(d): str(m[d]) for d in m.decls() if not str(d).startswith(('k!', 'opq'))}
                if r == z3.unknown:
                    res['inconclusive'] = True
                results.append(res)
        info[crate] = dict(functions_scanned=scanned, skipped=skipped, arithmetic_panic_sites=sites_total)
    results.append(dict(name='overflow scan: at least one function body was executed in each crate (non-vacuity)', result='structural', ok=all(info[c]['functions_scanned'] > 0 for c in ('staking', 'treasury')), prop='C16'))
    return dict(functions=info, results=results)


if __name__ == '__main__':
    print(json.dumps(run(), indent=1, default=str))
