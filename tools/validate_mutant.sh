#!/bin/bash
# usage: tools/validate_mutant.sh <dir with wt/ out/ target/>   -- confirms: suite passes with patch; demo passes without, fails with
set -u
D=$1; WT=$D/wt; export CARGO_TARGET_DIR=$D/target
cd $WT || exit 2
git checkout -q -- . ; git clean -fdq
git apply --check $D/out/patch.diff || { echo "patch.diff does not apply"; exit 2; }
git apply --check $D/out/demo.diff || { echo "demo.diff does not apply"; exit 2; }
# 1. existing suite with the patch
git apply $D/out/patch.diff
R1=$(cargo test --workspace --offline 2>&1 | grep -E "^test result" | awk '{p+=$4; f+=$6} END {print p" passed "f" failed"}')
echo "suite with patch: $R1"
# 2. demo with patch
git apply $D/out/demo.diff
R2=$(cargo test --workspace --offline 2>&1 | grep -E "^test result" | awk '{p+=$4; f+=$6} END {print p" passed "f" failed"}')
echo "suite+demo with patch: $R2"
# 2b. demo with patch in the miniwasm build (some changes only show there; 3 tests of the repo are Osmosis-specific and fail in this build anyway)
R2B=$(cargo test -p staking --no-default-features --features miniwasm --offline 2>&1 | grep -E "^test result" | awk '{p+=$4; f+=$6} END {print p" passed "f" failed"}')
echo "suite+demo with patch (miniwasm build, 3 Osmosis-only failures expected): $R2B"
# 3. demo without patch
git apply -R $D/out/patch.diff
R3=$(cargo test --workspace --offline 2>&1 | grep -E "^test result" | awk '{p+=$4; f+=$6} END {print p" passed "f" failed"}')
echo "suite+demo without patch: $R3"
git checkout -q -- . ; git clean -fdq
