#!/usr/bin/env python3
"""usage: keep_mutant.py <srcdir> <seeded-id> <property> <needs> <caught_by> <ran>"""
import sys, os, shutil, json
src, sid, prop, needs, caught, ran = sys.argv[1:7]
d = f'/verif/seeded/{sid}'
os.makedirs(d, exist_ok=True)
for f in ['patch.diff', 'demo.diff', 'README.md']:
    if os.path.exists(f'{src}/out/{f}'):
        shutil.copy(f'{src}/out/{f}', f'{d}/{f}')
json.dump({'id': sid, 'breaks_property': prop, 'needs_to_manifest': needs, 'confirmed': 'tools/validate_mutant.sh: existing suite 107/107 with the change; demo passes without and fails with it', 'checks_run': ran, 'caught_by': caught, 'author': 'independent sub-agent given only the property text and a scratch worktree'}, open(f'{d}/meta.json', 'w'), indent=1)
print('kept', d)
