#!/bin/bash
# usage: tools/try_mutant.sh <patch.diff> <prop> [more props...]   -- applies a seeded change to /repo, runs the checks, restores /repo
set -u
PATCH=$1; shift
cd /repo || exit 2
if [ -n "$(git status --porcelain)" ]; then echo "/repo is dirty"; exit 2; fi
git apply "$PATCH" || { echo "patch does not apply"; exit 2; }
trap 'git -C /repo checkout -- . ; git -C /repo status --porcelain' EXIT
cd /verif
for p in "$@"; do
  ./check "$p" --tier "${TIER:-quick}" > /tmp/mutant-$p.log 2>&1
  rc=$?
  echo "== $p exit=$rc"; grep -E "^VIOLATION|^  obligation|^KNOWN|^INCONCLUSIVE|^\[" /tmp/mutant-$p.log | head -12
done
