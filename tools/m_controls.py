#!/usr/bin/env python3
"""Negative controls for engine M (non-vacuity of its queries).

Each control copies the current MIR dump (MIR_DIR, default /verif/.target), applies one textual edit to one function body
(the kind of change a source edit would produce in the dump), runs one engine-M query script on the edited dump and
requires that a named obligation is no longer discharged (sat / structural failure / inconclusive). On the unedited
dump every obligation of these scripts is discharged (that is what ./check verifies); a control that still passes
means the query does not depend on the code it claims to read.

usage: tools/m_controls.py            -> exit 0 when every control trips, 1 otherwise
"""
import json, os, re, shutil, subprocess, sys, tempfile

ROOT = os.path.dirname(os.path.dirname(os.path.abspath(__file__)))
SRC = os.environ.get('MIR_DIR', os.path.join(ROOT, '.target'))


def edit_fn(text, header_re, old, new, count=0):
    m = re.search(header_re, text, re.M)
    assert m, 'function not found: ' + header_re
    end = text.find('\n}\n', m.start())
    body = text[m.start():end]
    assert old in body, 'pattern not found in %s: %s' % (header_re, old)
    body = body.replace(old, new, count) if count else body.replace(old, new)
    return text[:m.start()] + body + text[end:]


CONTROLS = [
    # (name, crate, function header regex, old, new, script, args, substring of the obligation that must fail)
    ('channel keyword changed', 'staking', r'^fn [^\n]*::validate\(_1: &UnsafeProtocolChainConfig\)', 'const "channel-"', 'const "chan-"', 'm_c14.py', [], 'an accepted channel is `channel-`'),
    ('denom length bound off by one', 'staking', r'^fn validate_denom\(', 'const 3_usize);', 'const 2_usize);', 'm_c14.py', [], 'validate_denom: accepted exactly'),
    ('resume writes the wrong State field', 'staking', r'^fn resume_contract::\{closure#0\}\(', '(_2.4: cosmwasm_std::Uint128) = move _5;', '(_2.6: cosmwasm_std::Uint128) = move _5;', 'm_guards.py', [], 'staked, LST and reward totals saved are exactly'),
    ('ownership lock of 6 days', 'staking', r'^fn execute_transfer_ownership\(', 'const 7_u64', 'const 6_u64', 'm_c12.py', ['6'], 'staking'),
    ('treasury spend without the admin guard', 'treasury', r'^fn execute_spend_funds\(', "cw_controllers::Admin::<'_>::assert_admin::<cosmwasm_std::Empty>", "cw_controllers::Admin::<'_>::assert_admim::<cosmwasm_std::Empty>", 'm_c13.py', [], 'execute_spend_funds: every path that can return Ok requires sender = current admin'),
    ('treasury update_config keeps the old trader', 'treasury', r'^fn execute_update_config\(', '(_17.0: cosmwasm_std::Addr) = copy _33;', '(_17.0: cosmwasm_std::Addr) = copy (_17.0: cosmwasm_std::Addr);', 'm_c13.py', [], 'saved trader'),
    ('submit accepted one second early', 'staking', r'^fn execute_submit_batch\(', '_34 = Lt(move _35, copy _33);', '_34 = Le(move _35, copy _33);', 'm_c06.py', [], 'submit'),
    ('hash domain separator changed', 'staking', r'^const SENDER_PREFIX: &str', 'const "ibc-wasm-hook-intermediary"', 'const "ibc-wasm-hook-intermediarY"', 'm_c09.py', [], 'derive(channel, sender, prefix)'),
    ('address accepted when the decoded prefix differs', 'staking', r'^fn validate_address\(', 'switchInt(move _6) -> [0: bb6, otherwise: bb4];', 'switchInt(move _6) -> [0: bb4, otherwise: bb6];', 'm_c14.py', [], 'validate_address: accepted exactly'),
    ('pagination compares with the wrong sign', 'staking', r'^fn paginate_map\(', '_21 = Lt(move _22, copy _20);', '_21 = Le(move _22, copy _20);', 'm_c17.py', ['4'], ''),
]


def run(script, args, mir_dir):
    r = subprocess.run(['python3-vt', os.path.join(ROOT, 'mirx', script)] + args, env=dict(os.environ, MIR_DIR=mir_dir), capture_output=True, text=True, timeout=1800)
    if r.returncode != 0:
        return None, r.stderr[-400:]
    d = json.loads(r.stdout)
    blocks = d if isinstance(d, list) else [d]
    return [x for b in blocks for x in b['results']], ''


def main():
    tripped, failed, skipped = [], [], []
    for name, crate, hdr, old, new, script, args, want in CONTROLS:
        if old is None:
            continue
        tmp = tempfile.mkdtemp(prefix='mctl-', dir=os.path.join(ROOT, '.target'))
        try:
            for c in ('staking', 'treasury', 'milky_way'):
                shutil.copy(os.path.join(SRC, c + '.mir'), os.path.join(tmp, c + '.mir'))
            p = os.path.join(tmp, crate + '.mir')
            try:
                txt = edit_fn(open(p).read(), hdr, old, new)
            except AssertionError as e:
                skipped.append((name, str(e)))
                continue
            open(p, 'w').write(txt)
            res, err = run(script, args, tmp)
            if res is None:
                failed.append((name, 'script failed: ' + err))
                continue
            bad = [x for x in res if not x['ok'] and want in x['name']]
            if bad:
                tripped.append((name, bad[0]['name'][:120], str(bad[0].get('result'))[:60]))
            else:
                failed.append((name, 'no obligation containing %r failed (%d obligations, %d not ok)' % (want, len(res), len([x for x in res if not x['ok']]))))
        finally:
            shutil.rmtree(tmp, ignore_errors=True)
    for t in tripped:
        print('TRIPPED   %-45s -> %s [%s]' % t)
    for s in skipped:
        print('SKIPPED   %-45s (%s)' % s)
    for f in failed:
        print('NOT-TRIPPED %-43s %s' % f)
    print(json.dumps({'controls': len(tripped) + len(failed) + len(skipped), 'tripped': len(tripped), 'not_tripped': len(failed), 'skipped': len(skipped)}))
    return 0 if not failed and not skipped else 1


if __name__ == '__main__':
    sys.exit(main())
