#!/bin/bash
# applies every kept seeded change in turn and runs the quick check of the property it breaks; prints one line each
cd /repo || exit 2
[ -n "$(git status --porcelain)" ] && { echo "/repo dirty"; exit 2; }
for d in /verif/seeded/*/; do
  id=$(basename $d); prop=$(python3 -c "import json;print(json.load(open('$d/meta.json'))['breaks_property'])")
  git apply $d/patch.diff 2>/dev/null || { echo "$id $prop APPLY-FAILED"; git checkout -- . ; continue; }
  (cd /verif && ./check $prop --tier quick > /tmp/seeded-$id.log 2>&1); rc=$?
  git checkout -- . ; git clean -fdq contracts packages 2>/dev/null
  echo "$id $prop exit=$rc $(grep -c '^VIOLATION' /tmp/seeded-$id.log) violations"
done
