#!/bin/bash
# applies every kept seeded change in turn and runs the quick check of the property it breaks; prints one line each
# usage: tools/seeded_matrix.sh [glob of seeded ids, default *] [time cap in seconds, default none]
cd /repo || exit 2
[ -n "$(git status --porcelain)" ] && { echo "/repo dirty"; exit 2; }
PAT=${1:-*}; CAP=${2:-0}; T0=$(date +%s)
trap 'git -C /repo checkout -- . ; git -C /repo clean -fdq contracts packages 2>/dev/null' EXIT
for d in /verif/seeded/$PAT/; do
  if [ "$CAP" -gt 0 ] && [ $(( $(date +%s) - T0 )) -gt "$CAP" ]; then echo "time cap reached"; break; fi
  id=$(basename $d); prop=$(python3 -c "import json;print(json.load(open('$d/meta.json'))['breaks_property'])")
  git apply $d/patch.diff 2>/dev/null || { echo "$id $prop APPLY-FAILED"; git checkout -- . ; continue; }
  (cd /verif && ./check $prop --tier quick > /tmp/seeded-$id.log 2>&1); rc=$?
  git checkout -- . ; git clean -fdq contracts packages 2>/dev/null
  echo "$id $prop exit=$rc $(grep -c '^VIOLATION' /tmp/seeded-$id.log) violations"
done
