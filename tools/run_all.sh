#!/bin/bash
# runs every registered quick (or $1=thorough) check on the current tree; prints one line per property
cd "$(dirname "$0")/.."
T=${1:-quick}
for p in $(python3 -c "import json; print(' '.join(c['property_id'] for c in json.load(open('MANIFEST.json'))['checks']))"); do
  ./check $p --tier $T > /tmp/all-$p.log 2>&1; rc=$?
  echo "$p exit=$rc $(grep -E '^\[' /tmp/all-$p.log | tail -1)"
  if [ $rc -ne 0 ]; then grep -E "^VIOLATION|^  obligation|^INCONCLUSIVE" /tmp/all-$p.log | head -6; fi
done
