#!/bin/bash
# usage: tools/run_suite.sh <suite> [props] [tier]  -- ad-hoc sharded run with a summary (development helper)
S=/verif/.target/symx/debug/symx; D=/tmp/rs-$1; mkdir -p $D; rm -f $D/*.json
for i in $(seq 0 15); do $S run --suite $1 --props "${2:-}" --tier ${3:-quick} --shard $i/16 --out $D/s$i.json & done; wait
cd $D && python3 - <<'PY'
import json,glob,collections
tot=collections.Counter(); lab=collections.defaultdict(lambda:[0,0,0]); fails=[]; eng=[]
for f in sorted(glob.glob('s*.json')):
    r=json.load(open(f))
    for k in ['cases','paths']: tot[k]+=r[k]
    for k,v in r['outcomes'].items(): tot['out_'+k]+=v
    tot['queries']+=r['solver']['queries']; tot['solver_ms']+=r['solver']['solver_ms']
    for k,v in r['by_label'].items():
        lab[k][0]+=v['proved']; lab[k][1]+=v['refuted']; lab[k][2]+=v['unknown']
    fails+=r['failures']; eng+=r['engine_errors']
print(dict(tot)); print('engine errors',len(eng), [e['error'][:200] for e in eng[:3]])
print('labels', len(lab))
for k,v in sorted(lab.items()):
    if v[1] or v[2]: print(v,k)
seen=set()
for f in fails:
    if f['label'] in seen: continue
    seen.add(f['label']); print('  e.g.', f['case'], '|', f['label'], '|', f['notes'], '|', str(f['verdict'])[:300])
PY
